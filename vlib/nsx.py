"""NSX-T: generator of manager / target pairs, JSON rendering, parser of the REST
calls printed by drc, terms for Nsx/Device.v."""
import json, re
from vlib import common as C

S = C.cbytes
GP = '/infra/domains/default/groups/'
SP = '/infra/services/'
IPS = ['10.1.1.%d' % i for i in range(10, 22)] + ['10.1.%d.0/24' % i for i in range(2, 6)]
SVCS = [('tcp', '80'), ('tcp', '443'), ('udp', '123'), ('tcp', '22'), ('udp', '53')]


def new_conf():
    return dict(policies={}, groups={}, services={})       # policies: id -> [rule]; groups: id -> [ip]; services: id -> def dict


def svc_id(sv):
    return 'Netspoc-%s_%s' % sv


def svc_def(sv, variant=0):
    return dict(service_entries=[dict(id='id', resource_type='L4PortSetServiceEntry', l4_protocol=sv[0].upper(),
                                      destination_ports=[sv[1]], source_ports=(['1024-65535'] if variant else []))])


def rule(rid, src, dst, srv, seq=20, action='ALLOW', direction='OUT', **kw):
    r = dict(id=rid, src=src, dst=dst, srv=srv, seq=seq, action=action, direction=direction)
    r.update(kw)
    return r


def gen_target(rng):
    c = new_conf()
    ng = rng.choice([0, 1, 2, 3])
    for i in range(ng):
        c['groups']['Netspoc-g%d' % i] = rng.sample(IPS, rng.choice([1, 2, 3, 5]))
    for pid in (['Netspoc-v1'] if rng.random() < 0.75 else ['Netspoc-v1', 'Netspoc-v2']):
        rules = []
        for k in range(rng.choice([0, 1, 2, 3, 4, 5])):
            def side():
                x = rng.random()
                if x < 0.15:
                    return 'ANY'
                if x < 0.6 and c['groups']:
                    return GP + rng.choice(sorted(c['groups']))
                return rng.choice(IPS)
            sv = rng.choice(SVCS + [None])
            rules.append(rule('r%d' % (len(rules) + 1), side(), side(), SP + svc_id(sv) if sv else 'ANY', seq=rng.choice([10, 20, 20, 20, 30]),
                              action=rng.choice(['ALLOW', 'ALLOW', 'DROP']), direction=rng.choice(['OUT', 'OUT', 'IN']),
                              logged=rng.random() < 0.15, tag='T' if rng.random() < 0.1 else '',
                              sources_excluded=rng.random() < 0.08, destinations_excluded=rng.random() < 0.08, disabled=rng.random() < 0.05))
        if rules and rng.random() < 0.3:
            # dual stack: IPv6 twins of the rules between groups / ANY (same direction, sequence number, action, service, scope)
            for r in list(rules):
                if all(r[f] == 'ANY' or r[f].startswith(GP) for f in ('src', 'dst')) and rng.random() < 0.7:
                    rules.append(dict(r, id='v6' + r['id'], ipp='IPV6'))
        c['policies'][pid] = rules
    finish(c)
    return c


def used(c):
    g, s = set(), set()
    for rules in c['policies'].values():
        for r in rules:
            for x in (r['src'], r['dst']):
                if x.startswith(GP):
                    g.add(x[len(GP):])
            if r['srv'].startswith(SP):
                s.add(r['srv'][len(SP):])
    return g, s


def grp_in_use(c, g):
    return any(r[f] == GP + g for rs in c['policies'].values() for r in rs for f in ('src', 'dst'))


def finish(c, keep_g=(), keep_s=()):
    g, s = used(c)
    c['groups'] = dict((k, v) for k, v in c['groups'].items() if k in g or k in keep_g)
    for k in g:
        if k.startswith('Netspoc'):
            c['groups'].setdefault(k, ['10.9.9.9'])
    old = c['services']
    c['services'] = {}
    for k in sorted(s | set(keep_s)):
        if k.startswith('Netspoc'):
            m = re.match(r'Netspoc-(tcp|udp)_(\d+)', k)
            c['services'][k] = old.get(k) or svc_def((m.group(1), m.group(2)))


def copy_conf(c):
    return dict(policies=dict((p, [dict(r) for r in rs]) for p, rs in c['policies'].items()),
                groups=dict((g, list(v)) for g, v in c['groups'].items()), services=dict((k, json.loads(json.dumps(v))) for k, v in c['services'].items()))


def mutate(rng, tgt):
    d = copy_conf(tgt)
    edits = []
    keep_g, keep_s = set(), set()
    for _ in range(rng.choice([0, 1, 1, 2, 2, 3, 4])):
        e = rng.choice(['del_rule', 'ins_rule', 'rename_rule', 'rename_grp', 'grp_add', 'grp_del', 'grp_many_del', 'split_grp', 'share_grp', 'grp_to_ip',
                        'ip_to_grp', 'svc_def', 'rule_srv', 'spare_grp', 'spare_svc', 'action', 'seq', 'clash_rule', 'clash_grp', 'del_policy', 'add_policy',
                        'dup_grp', 'logged', 'clash_suffix', 'external', 'clash_grp2', 'flag', 'flag', 'ipp', 'ipp', 'drop_family'])
        pids = sorted(d['policies'])
        rules = d['policies'][rng.choice(pids)] if pids else None
        if e == 'del_rule' and rules:
            rules.pop(rng.randrange(len(rules)))
        elif e == 'ins_rule' and rules is not None:
            rules.insert(rng.randrange(len(rules) + 1), rule('x%d' % rng.randrange(100), rng.choice(IPS), rng.choice(IPS), 'ANY', seq=rng.choice([10, 20, 30])))
        elif e == 'rename_rule' and rules:
            rng.choice(rules)['id'] = 'n%d' % rng.randrange(100)
        elif e == 'rename_grp' and d['groups']:
            g = rng.choice(sorted(d['groups']))
            new = 'Netspoc-dg%d' % rng.randrange(50)
            if new not in d['groups']:
                d['groups'][new] = d['groups'].pop(g)
                for rs in d['policies'].values():
                    for r in rs:
                        for f in ('src', 'dst'):
                            if r[f] == GP + g:
                                r[f] = GP + new
        elif e == 'grp_add' and d['groups']:
            g = rng.choice(sorted(d['groups']))
            for a in rng.sample(IPS, rng.choice([1, 2, 5])):
                if a not in d['groups'][g]:
                    d['groups'][g].append(a)
        elif e in ('grp_del', 'grp_many_del') and d['groups']:
            g = rng.choice(sorted(d['groups']))
            n = 1 if e == 'grp_del' else 4
            while len(d['groups'][g]) > 1 and n:
                d['groups'][g].pop(rng.randrange(len(d['groups'][g])))
                n -= 1
        elif e == 'split_grp' and d['groups']:
            g = rng.choice(sorted(d['groups']))
            users = [(r, f) for rs in d['policies'].values() for r in rs for f in ('src', 'dst') if r[f] == GP + g]
            if len(users) > 1:
                d['groups'][g + 'b'] = list(d['groups'][g])
                r, f = users[-1]
                r[f] = GP + g + 'b'
        elif e == 'share_grp' and len(d['groups']) > 1:
            a, b = rng.sample(sorted(d['groups']), 2)
            for rs in d['policies'].values():
                for r in rs:
                    for f in ('src', 'dst'):
                        if r[f] == GP + b:
                            r[f] = GP + a
        elif e == 'grp_to_ip' and rules:
            r = rng.choice(rules)
            f = rng.choice(['src', 'dst'])
            if r[f].startswith(GP):
                r[f] = rng.choice(IPS)
        elif e == 'ip_to_grp' and rules:
            r = rng.choice(rules)
            f = rng.choice(['src', 'dst'])
            if not r[f].startswith(GP):
                new = 'Netspoc-lg%d' % rng.randrange(50)
                d['groups'][new] = rng.sample(IPS, 2)
                r[f] = GP + new
        elif e == 'svc_def' and d['services']:
            k = rng.choice(sorted(d['services']))
            m = re.match(r'Netspoc-(tcp|udp)_(\d+)', k)
            d['services'][k] = svc_def((m.group(1), m.group(2)), 1)
            if rng.random() < 0.5:
                # the manager's service has one entry more than the target's (same first entry)
                d['services'][k] = svc_def((m.group(1), m.group(2)))
                d['services'][k]['service_entries'].append(dict(id='id2', resource_type='L4PortSetServiceEntry', l4_protocol='TCP',
                                                                destination_ports=['8080'], source_ports=[]))
        elif e == 'rule_srv' and rules:
            sv = rng.choice(SVCS + [None])
            rng.choice(rules)['srv'] = SP + svc_id(sv) if sv else 'ANY'
        elif e == 'spare_grp':
            new = 'Netspoc-sp%d' % rng.randrange(9)
            d['groups'].setdefault(new, rng.sample(IPS, 2))
            keep_g.add(new)
        elif e == 'dup_grp' and d['groups']:
            g = rng.choice(sorted(d['groups']))
            d['groups'][g + 'dup'] = list(d['groups'][g])
            keep_g.add(g + 'dup')
        elif e == 'spare_svc':
            keep_s.add(svc_id(rng.choice(SVCS)))
        elif e == 'action' and rules:
            r = rng.choice(rules)
            r['action'] = 'DROP' if r['action'] == 'ALLOW' else 'ALLOW'
        elif e == 'seq' and rules:
            rng.choice(rules)['seq'] = rng.choice([10, 20, 30, 40])
        elif e == 'logged' and rules:
            r = rng.choice(rules)
            r['logged'] = not r.get('logged')
        elif e == 'ipp' and rules:
            # the address family of a rule differs
            r = rng.choice(rules)
            r['ipp'] = rng.choice([x for x in ('IPV4', 'IPV6', 'IPV4_IPV6') if x != (r.get('ipp') or 'IPV4')])
        elif e == 'drop_family' and rules:
            # the manager has the rules of one address family only
            fam = rng.choice(['IPV4', 'IPV6'])
            rules[:] = [r for r in rules if (r.get('ipp') or 'IPV4') != fam]
        elif e == 'flag' and rules:
            # a negation or the disabled flag differs; preferably on a rule between two groups
            cand = [r for r in rules if r['src'].startswith(GP) and r['dst'].startswith(GP)] or rules
            r = rng.choice(cand)
            k = rng.choice(['sources_excluded', 'destinations_excluded', 'disabled'])
            r[k] = not r.get(k)
        elif e == 'clash_rule' and rules is not None:
            tr = [r for rs in tgt['policies'].values() for r in rs]
            if tr:
                nm = rng.choice(tr)['id']
                if all(r['id'] != nm for r in rules):
                    rules.append(rule(nm, '10.7.7.7', '10.8.8.8', 'ANY', seq=40, action='DROP'))
        elif e == 'clash_suffix' and rules is not None:
            for pid, trs in tgt['policies'].items():
                if len(trs) > 1 and pid in d['policies']:
                    a, b = rng.sample(range(len(trs)), 2)
                    nm, old = trs[a]['id'], trs[b]['id']
                    dr = d['policies'][pid]
                    if all(r['id'] != nm for r in dr) and not nm.endswith('-1') and not old.endswith('-1'):
                        dr.append(rule(nm, '10.7.7.7', '10.8.8.8', 'ANY', seq=40, action='DROP'))
                        trs[b]['id'] = nm + '-1'
                        for r in dr:
                            if r['id'] == old:
                                r['id'] = 'k%d' % rng.randrange(100)
                    break
        elif e == 'clash_grp2' and tgt['groups']:
            # the manager holds NAME (other content) and NAME-1 (in use by a kept rule)
            nm = rng.choice(sorted(tgt['groups']))
            others = [g for g in sorted(d['groups']) if g != nm and grp_in_use(d, g)]
            if others and nm + '-1' not in d['groups'] and nm + '-1' not in tgt['groups']:
                o = rng.choice(others)
                d['groups'][nm + '-1'] = d['groups'].pop(o)
                for rs in d['policies'].values():
                    for r in rs:
                        for f in ('src', 'dst'):
                            if r[f] == GP + o:
                                r[f] = GP + nm + '-1'
                if nm in d['groups'] and grp_in_use(d, nm):
                    pass
                d['groups'][nm] = rng.sample(IPS, 3)
                keep_g.add(nm)
        elif e == 'clash_grp' and tgt['groups']:
            nm = rng.choice(sorted(tgt['groups']))
            d['groups'][nm] = rng.sample(IPS, 3)
        elif e == 'del_policy' and len(pids) > 1:
            d['policies'].pop(pids[-1])
        elif e == 'add_policy':
            d['policies'].setdefault('Netspoc-v9', [rule('z1', rng.choice(IPS), 'ANY', 'ANY')])
        elif e == 'external' and rules:
            r = rng.choice(rules)
            r[rng.choice(['src', 'dst'])] = GP + 'external%d' % rng.randrange(3)
        else:
            continue
        edits.append(e)
    for rs in d['policies'].values():
        seen = set()
        for r in rs:
            while r['id'] in seen:
                r['id'] += 'u'
            seen.add(r['id'])
    finish(d, keep_g, keep_s)
    return d, edits


# ------------------------------------------------------------------ JSON
def rule_json(r):
    j = dict(resource_type='Rule', id=r['id'], scope=['/infra/tier-0s/v1'], direction=r['direction'], ip_protocol=r.get('ipp') or 'IPV4',
             sequence_number=r['seq'], action=r['action'], source_groups=[r['src']], destination_groups=[r['dst']], services=[r['srv']])
    if r.get('logged'):
        j['logged'] = True
    if r.get('tag'):
        j['tag'] = r['tag']
    for k in ('sources_excluded', 'destinations_excluded', 'disabled'):
        if r.get(k):
            j[k] = True
    return j


def conf_json(c):
    return json.dumps(dict(
        groups=[dict(id=g, expression=[dict(id='id', resource_type='IPAddressExpression', ip_addresses=list(v))]) for g, v in c['groups'].items()],
        services=[dict(v, id=k) for k, v in c['services'].items()],
        policies=[dict(id=p, resource_type='GatewayPolicy', rules=[rule_json(r) for r in rs]) for p, rs in c['policies'].items()]), indent=1) + '\n'


MISC_KEYS = ('action', 'sequence_number', 'sources_excluded', 'destinations_excluded', 'service_entries', 'profiles', 'scope', 'disabled',
             'logged', 'tag', 'direction', 'ip_protocol')


def misc_of(j):
    """canonical text of what a rule says besides id, groups and service (defaults dropped as the tool's structs do)"""
    out = {}
    for k in MISC_KEYS:
        v = j.get(k)
        if v in (None, False, '', [], 0) and k not in ('sequence_number', 'scope'):
            continue
        out[k] = v
    return json.dumps(out, sort_keys=True)


def c_rule_from_json(j, rid=None):
    return '{| n_id := %s; n_misc := %s; n_src := %s; n_dst := %s; n_srv := %s |}' % (
        S(rid if rid is not None else j.get('id', '')), S(misc_of(j)), S(j['source_groups'][0]), S(j['destination_groups'][0]), S(j['services'][0]))


def svc_canon(v):
    return json.dumps(dict((k, x) for k, x in v.items() if k != 'id'), sort_keys=True)


def c_mgr(c):
    return '{| m_pol := %s; m_grp := %s; m_svc := %s |}' % (
        C.clist(['(%s, %s)' % (S(p), C.clist([c_rule_from_json(rule_json(r)) for r in rs])) for p, rs in c['policies'].items()]),
        C.clist(['(%s, %s)' % (S(g), C.clist([S(x) for x in v])) for g, v in c['groups'].items()]),
        C.clist(['(%s, %s)' % (S(k), S(svc_canon(v))) for k, v in c['services'].items()]))


# ------------------------------------------------------------------ requests
def parse_requests(out):
    """stdout of drc -> list of Coq req terms, list of lines not understood"""
    lines = [l for l in out.split('\n') if l.strip() and not l.startswith('comp:')]
    reqs, bad = [], []
    i = 0
    while i < len(lines):
        m = re.match(r'^(PUT|PATCH|POST|DELETE) (/policy/api/v1/infra/\S+)$', lines[i])
        if not m:
            bad.append(lines[i][:200])
            i += 1
            continue
        method, url = m.groups()
        body = None
        if i + 1 < len(lines) and not re.match(r'^(PUT|PATCH|POST|DELETE) /', lines[i + 1]):
            try:
                body = json.loads(lines[i + 1])
            except ValueError:
                bad.append(lines[i + 1][:200])
            i += 1
        i += 1
        u = url[len('/policy/api/v1/infra/'):]
        try:
            mm = re.match(r'^services/([^/?]+)$', u)
            if mm:
                sid = mm.group(1)
                if method == 'DELETE':
                    reqs.append('SvcDelete %s' % S(sid))
                else:
                    reqs.append('%s %s %s' % ('SvcPut' if method == 'PUT' else 'SvcPatch', S(sid), S(svc_canon(body))))
                continue
            mm = re.match(r'^domains/default/groups/([^/?]+)(?:/ip-address-expressions/([^/?]+)(?:\?action=(add|remove))?)?$', u)
            if mm:
                gid, eid, act = mm.groups()
                if eid is None:
                    if method == 'DELETE':
                        reqs.append('GrpDelete %s' % S(gid))
                    elif method == 'PUT':
                        reqs.append('GrpPut %s %s' % (S(gid), C.clist([S(x) for x in body['expression'][0]['ip_addresses']])))
                    else:
                        raise ValueError('group method')
                elif act:
                    reqs.append('%s %s %s' % ('GrpAdd' if act == 'add' else 'GrpRemove', S(gid), C.clist([S(x) for x in body['ip_addresses']])))
                elif method == 'PATCH':
                    reqs.append('GrpPatch %s %s' % (S(gid), C.clist([S(x) for x in body['ip_addresses']])))
                else:
                    raise ValueError('expression method')
                continue
            mm = re.match(r'^domains/default/gateway-policies/([^/?]+)(?:/rules/([^/?]+))?$', u)
            if mm:
                pid, rid = mm.groups()
                if rid is None:
                    if method == 'DELETE':
                        reqs.append('PolDelete %s' % S(pid))
                    elif method == 'PUT':
                        reqs.append('PolPut %s %s' % (S(pid), C.clist([c_rule_from_json(r) for r in body.get('rules') or []])))
                    else:
                        raise ValueError('policy method')
                elif method == 'DELETE':
                    reqs.append('RuleDelete %s %s' % (S(pid), S(rid)))
                else:
                    reqs.append('%s %s %s' % ('RulePut' if method == 'PUT' else 'RulePatch', S(pid), c_rule_from_json(body, rid)))
                continue
            raise ValueError('url')
        except (ValueError, KeyError, TypeError, IndexError) as ex:
            bad.append('%s %s (%s)' % (method, url, ex))
    return reqs, bad


# ------------------------------------------------------------------ rendered state -> conf
def conf_from_render(lines):
    c = new_conf()
    for ln in lines:
        f = ln.split('|')
        if f[0] == 'P':
            c['policies'].setdefault(f[1], [])
        elif f[0] == 'R':
            misc = json.loads(f[3])
            c['policies'].setdefault(f[1], []).append(rule(f[2], f[4], f[5], f[6], seq=misc.get('sequence_number', 0), action=misc.get('action', ''),
                                                           direction=misc.get('direction', ''), logged=misc.get('logged', False), tag=misc.get('tag', ''),
                                                           sources_excluded=misc.get('sources_excluded', False),
                                                           destinations_excluded=misc.get('destinations_excluded', False), disabled=misc.get('disabled', False), ipp=misc.get('ip_protocol', 'IPV4')))
        elif f[0] == 'G':
            c['groups'][f[1]] = [x for x in f[2].split(';') if x]
        elif f[0] == 'S':
            c['services'][f[1]] = json.loads(f[2])
    return c
