"""What MANIFEST.json claims per property (tools/mkmanifest.py renders it)."""
NOT_BUILT = {}
CLAIMS = {
 'C13': dict(
  text='Both halves of the property are Coq theorems (C13_never_forgets, C13_omits_established) over every history of the '
       'eight event kinds with a strictly increasing clock, proved by a refinement invariant between the two status slots and '
       'the latest conclusive observation computed from the history alone. The executable model is tied to status.go and '
       'missing-approve on every run by replaying generated histories on the real writers and the real binary and comparing '
       'the listing and the slots after every event inside Coq; the same Coq predicate is evaluated on the printed listing to '
       'find failing histories.',
  design_ref='DESIGN.md section 4, C13',
  note='Trusted: Coq kernel; the world model of policy directories (plain/bz2/removed) and of damage (= json.Unmarshal rejects the file); '
       'the harness (vlib/c13.py, harness/cmd/nah/status.go). The mapping from do-approve outcomes to SetApprove/SetCompare flags is C09.',
  technique='Coq refinement invariant over histories + differential replay of histories on status.go/missing-approve'),
}
