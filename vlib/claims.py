"""What MANIFEST.json claims per property (tools/mkmanifest.py renders it)."""
NOT_BUILT = {}
CLAIMS = {
 'C13': dict(
  text='Both halves of the property are Coq theorems (C13_never_forgets, C13_omits_established) over every history of the '
       'eight event kinds with a strictly increasing clock, proved by a refinement invariant between the two status slots and '
       'the latest conclusive observation computed from the history alone. The executable model is tied to status.go and '
       'missing-approve on every run by replaying generated histories on the real writers and the real binary and comparing '
       'the listing and the slots after every event inside Coq; the same Coq predicate is evaluated on the printed listing to '
       'find failing histories.',
  design_ref='DESIGN.md section 4, C13',
  note='Trusted: Coq kernel; the world model of policy directories (plain/bz2/removed) and of damage (= json.Unmarshal rejects the file); '
       'the harness (vlib/c13.py, harness/cmd/nah/status.go). The mapping from do-approve outcomes to SetApprove/SetCompare flags is C09.',
  technique='Coq refinement invariant over histories + differential replay of histories on status.go/missing-approve'),
 'C05': dict(
  text='Convergence of the route half is a Coq theorem over all duplicate-free route lists (C05_routes_converge: executing the emitted '
       'add/del/replace commands on a kernel table holding the device routes never fails and yields exactly the target routes; '
       'C05_routes_unchanged_iff: nothing is emitted iff the sets are equal). The iptables half (option parsing, normalisation of kernel '
       'spellings, first-difference report, raw merge, restore file) is an executable Gallina model; the whole stdout of drc must equal the '
       'model output on generated device/target pairs in both spellings, and the generator independently knows whether the device is a '
       're-spelling or a semantic edit of the target.',
  design_ref='DESIGN.md section 4, C05',
  note='Trusted: Coq kernel; the kernel routing-table semantics (add fails iff the same destination+hop is present); the list of kernel '
       're-spellings (no iptables binary in the sandbox); the harness vlib/c05.py. Partial: the normaliser is tied by correspondence, the '
       'soundness theorem covers the structural diff; real kernel behaviour cannot be exhibited.',
  extra_note=' C05_iptables_unchanged_only_if_equal: for the iptables half the soundness of the structural diff is proved (no difference reported only for equal tables, chains, policies and ordered rules with equal options); the normaliser itself stays tied by correspondence.',
  technique='Coq proof of route-script convergence on a kernel-table semantics + exact differential of drc output against the Gallina model'),
 'C01': dict(
  text='asa_conv_partial: the line-number core of diffASAACLs (inserts, deletes, joined moves incl. log changes) is a Gallina model '
       'proved correct for EVERY valid edit script between entry lists without repeated bodies (C01_asa_acl_lines_converge_partial, '
       'C01_asa_acl_unchanged_only_if_equal) and compared command by command with the implementation using the edit script of the '
       'library the tool calls. Whole configurations (several interfaces, shared ACLs, object-groups reused/edited/duplicated/split, '
       'rebinding, routes, unmanaged content) are decided by executing the implementation\'s script on the strict Coq device semantics '
       'and checking equivalence with the target plus a silent second compare by the real tool.',
  design_ref='DESIGN.md section 4, C01',
  note='Trusted: Coq kernel; strict ASA device semantics (Cisco/Device.v); script parser and generator (vlib/cisco.py). Partial: object-group '
       'logic and multi-ACL flow are not proved; crypto maps and address-named tunnel-groups with group-policies are executed on device models without a convergence theorem; certificate maps, tunnel-group-maps and named tunnel-groups are not modelled.',
  extra_note=' C01_cisco_routes_converge_stepwise: the route commands of cisco.diffRoutes (shared by ASA and IOS) for one VRF are a Gallina model (Cisco/Routes.v) compared command by command with drc on generated route lists; for every edit script between route lists with one route per destination every command is accepted, every prefix keeps a route for each destination routed before and after, and the table ends with exactly the target routes. ASA crypto maps with crypto ACLs, IKEv1 transform-sets and IKEv2 ipsec-proposals are generated separately and executed on Cisco/Vpn.v (device model and oracle without a convergence theorem). Tunnel-groups named by the peer address (IPv4 and IPv6) with attribute sections, users with their attributes, the group-policies both reference, and the ACLs (vpn-filter, split-tunnel-network-list) and address pools of those (renamed, shared, split, left-over generated objects, edited in place) are executed on Cisco/Tunnel.v: every command accepted, tunnel-groups and users with references expanded equal the target, second compare by the real tool silent. For this model "equivalent up to generated object names" is a theorem: C01_tunnel_oracle_independent_of_generated_names (renaming ACLs, pools and group-policies injectively together with the references to them changes neither the semantics nor the oracle verdict) and C01_tunnel_accepted_script_result_independent_of_generated_names (the strict device keeps the premise — every reference names an existing object — in every state an accepted script passes through).',
  technique='Coq proof of the ACL line core for all valid edit scripts + execution of the real script on a Coq device semantics'),
 'C02': dict(
  text='C02_ios_acl_equiv: for EVERY edit script between a device ACL and a target ACL in which no line occurs twice (IOS refuses such '
       'ACLs) and every inserted run has fewer than 10000 lines — all block structures, remarks, log variants, moves in both directions, any '
       'number of insert ranges — every numbered command of the model of diffIOSACLs (numbered insert, joined "no N / M line", delete by '
       'number) is accepted by the strict numbered ACL of the device, and the rules the device then holds differ from the rules of the target '
       'only by exchanges of neighbouring rules with the same action (remarks and log attributes dropped); C02_sw_equiv_same_filtering: such '
       'ACLs give every packet the same first-match verdict for every matcher. The proof goes through invariants of the block ids of '
       'markIOSPermitDenyBlocks and the split pass (an id covers an interval, one action per id, an unsplit insert run inside a block has the '
       'action of the block) and shows that every suppressed move crosses only rules of its own action. The model (Cisco/IosAcl.v) is compared '
       'number by number with the implementation on generated ACL pairs (blocks, remarks, split shapes, log variants) with the edit script of '
       'the library the tool calls; the resulting ACL is compared a second time by the real tool. Whole IOS configurations (interfaces, shared '
       'ACLs, routes) are executed on the Coq device semantics with a silent second compare.',
  design_ref='DESIGN.md section 4, C02 and section 10',
  note='Trusted: as C01; the edit script itself comes from github.com/pkg/diff/myers (the theorem holds for every script, not only minimal ones). '
       'Not proved: that a second compare is silent (it depends on the edit script the library chooses for the new state; tested, known finding '
       'F-C02-2 for remark lines), routes per VRF and crypto filter ACLs (executed on the device model only). Two defects found while stating the '
       'theorem were repaired in /repo (8935ef2 trailing remarks of a block, 67efe5b log attribute inside a block).',
  technique='Coq theorem for all edit scripts (acceptance of every numbered command and filtering equivalence of the result, via block-id invariants) + executable Gallina model of the numbering core checked number by number against the implementation + Coq device semantics as oracle'),
 'C07': dict(
  text='C07_frame_every_prefix: on the strict device semantics an accepted command changes only the objects it names, hence a script that '
       'never names an ACL, object-group, binding or route outside Netspoc\'s scope leaves them untouched after every prefix (interrupted runs '
       'included). The premise is evaluated on every script the implementation prints for devices with interleaved unmanaged content '
       '(unknown interface with in+out ACLs, unused manual objects, generated-looking objects referenced only by unmanaged ones, routes of '
       'unmanaged families); the conclusion is also observed directly after each step.',
  design_ref='DESIGN.md section 4, C07',
  note='Trusted: Coq kernel; device semantics; generator of unmanaged content. PAN-OS / NSX halves are covered under C03/C04 when built.',
  extra_note=' PAN-OS and NSX halves: for generated two-vsys devices no command addresses anything outside the targeted vsys; NSX approve sessions run against the manager simulator that also holds policies, groups and services of other owners (some with the content of target groups): no changing request addresses an id without the Netspoc prefix.',
  technique='Coq footprint/frame theorem over the device semantics + per-step projection check of real scripts'),
 'C08': dict(
  text='C08_asa_acl_every_prefix_accepted_partial: for the ASA line core every command of every prefix is accepted by the strict device '
       '(line numbers address the intended entry, no entry is added twice modulo log). For whole ASA and IOS configurations the real script '
       'is executed command by command on the strict Coq device (missing reference, still-referenced delete, duplicate entry, wrong line or '
       'sequence number, wrong configuration mode, duplicate route are refusals).',
  design_ref='DESIGN.md section 4, C08',
  note='Trusted: as C01; strictness rules of Cisco/Device.v are the property text. PAN-OS/NSX executability is under C03/C04.',
  extra_note=' C08_ios_acl_every_prefix_accepted: for the IOS numbering core every prefix of the numbered commands is accepted for EVERY edit script, moves included (Cisco/IosAclMoves.v, IosAclResume.v). ASA crypto commands are executed on the strict model Cisco/Vpn.v. PAN-OS and NSX: every command / request of the scripts of C03 / C04 is executed on the strict models Panos/Device.v and Nsx/Device.v; a refused one is reported here (known finding F-C08-1 = F-C03-2).',
  technique='Coq proof for the ASA line core + strict Coq device executing real scripts'),
 'C10': dict(
  text='C10_asa_acl_resume_partial: after any prefix of the ASA line script the device list is again duplicate-free, and every valid edit '
       'script from that state converges to the same target. For whole ASA/IOS configurations every prefix state of the real script is '
       'rendered by the Coq device, the real tool is run again on it, its script is executed on the Coq device, and a third compare must be silent.',
  design_ref='DESIGN.md section 4, C10',
  note='Trusted: as C01. Cuts between the halves of a joined command are covered by C10_device_states_stay_wellformed for the core only.',
  extra_note=' C10_ios_acl_resume: for the IOS numbering core the ACL after any prefix of the script again has no line twice, and every run from it (every edit script to the same target) is accepted and ends in an ACL that filters like the target. ASA crypto: every prefix state of the crypto script is resumed on Cisco/Vpn.v (cuts inside the sub-mode block of an ipsec-proposal included); known finding F-C10-1 (entry left without peer). NSX and PAN-OS: every prefix state of the request / command sequence is computed by Nsx/Device.v / Panos/Device.v, rendered, compared again by the real tool, the resumed script executed on the model (must be accepted, reach the target, leave no generated object behind) and a third compare must be silent.',
  technique='Coq resumability theorem for the line core + prefix-state replay of real scripts through the Coq device'),
 'C14': dict(
  text='C14_linux_routes_covered_stepwise: Coq theorem (all route lists, every prefix, every containment relation that depends on the destination only); '
       'C14_linux_routes_prefix_cover_stepwise: its instance for IPv4 prefix containment; the Linux route model is tied to linux.diffRoutes inside this check '
       'on route-only configurations with nested destinations (same network address under several prefix lengths, summaries, default route): exact script '
       'comparison and address coverage after every command, evaluated in Coq (vlib/linuxroutes.py). C01_cisco_routes_converge_stepwise (Cisco routes, tied by vlib/routecheck.py). C14_asa_move_free_script_safe_at_every_step and '
       'C14_ios_move_free_script_safe_at_every_step: for EVERY move-free edit script of the ASA and of the IOS model, after any number of its commands '
       'every packet on which old and new ACL agree keeps that verdict, for every first-match semantics. C14_acl_insert_then_delete_safe_partial: Coq theorem '
       'for every first-match semantics (any packet type, matcher, action, default): an intermediate ACL in which the new lines are inserted '
       'top-down or the old lines deleted bottom-up gives every packet on which old and new ACL agree that same verdict; the shape is '
       'evaluated on every intermediate ACL of the implementation\'s move-free ASA scripts. ACL half in general: after every command of the real script the '
       'verdict of every packet of a finite universe on which old and new ACL agree is evaluated in Coq, on whole configurations and on '
       'single-ACL cores for ASA and IOS; failures are classified by two decidable input predicates (known findings F-C14-1, F-C14-2), '
       'anything else is a violation.',
  design_ref='DESIGN.md section 4, C14',
  note='Trusted: Coq kernel; abstract matchers (one pseudo-random packet set per entry body); IOS semantics "an ACL without entries permits '
       'everything". The general stepwise theorem is refuted for the current algorithm when lines are moved (see known findings); proved: the '
       'route half and the ACL half for all scripts without moves of both models (ASA: Cisco/AsaStepSafe.v, IOS: Cisco/IosStepSafe.v); the models are tied '
       'to the implementation by the exact comparison of commands and, for ASA, additionally by the shape check of every intermediate ACL.',
  technique='Coq theorems (route coverage at every prefix; insert-then-delete safety for every first-match semantics) + shape check and per-step verdict evaluation of real scripts in Coq with known-finding predicates'),
 'C06': dict(
  text='In the dialogue model a wrong hostname / non-active HA state is junk at an inspected request and a missing marker leaves a plan '
       'without changing requests; the Coq theorems (for every plan and every device behaviour) say that nothing changing is sent and '
       'the run fails. Real runs of drc and do-approve on five families against the simulators cover hostname variants (prefix, '
       'extension, case), marker present / absent / other banner / not configured, all PAN-OS HA states, with and without pending changes.',
  design_ref='DESIGN.md section 4, C06',
  note='Trusted: simulators (sim/simdev.py, harness httpsim) as devices; classification of received lines. Known finding F-C06-1 (Linux ignores the missing marker).',
  technique='Coq theorems over a dialogue interpreter + scenario product on real binaries against device simulators'),
 'C09': dict(
  text='C09_fault_stops_run, C09_ok_only_if_all_accepted, C09_effective_fault_fails: theorems over the dialogue interpreter for every plan, '
       'oracle and position. The interpreter is tied to the tool by fault enumeration on the real do-approve for ASA, IOS, Linux, PAN-OS and NSX: '
       'every position x {error text, unexpected output, expected warning followed by a rejection, connection close, stall, HTTP 500, malformed '
       'reply, failure status, failed commit job}; the received command classes, exit status, status slots and history line are compared with the '
       'model and judged by the Coq trace predicates. The literal reading (any unexpected output stops the run) is refuted in Coq and recorded as F-C09-1.',
  design_ref='DESIGN.md section 4, C09',
  note='Trusted: simulators; the table of inspected replies (CHECKED) is validated by the correspondence. Not modelled: real timing, pty buffering, partial writes.',
  technique='Coq theorems over a dialogue interpreter + exhaustive fault-position enumeration on real binaries'),
 'C11': dict(
  text='C11_compare_is_read_only: a plan without changing requests never sends one for any device behaviour; the compare plans contain none. '
       'Real compare runs (drc -C, do-approve compare) on five families with non-empty differences, every interlock outcome and a fault at '
       'every position: the simulators must receive nothing but login, session setting and reads (ASA terminal-width block allowed).',
  design_ref='DESIGN.md section 4, C11',
  note='Trusted: simulators and the classification of received lines.',
  technique='Coq theorem over the dialogue interpreter + enumeration of compare sessions with faults'),
 'C15': dict(
  text='C15_guard_brackets_changes with C15_ios_plan_is_guarded: for every script and every device behaviour each change is sent under an '
       'accepted reload guard, the configuration is saved only after its cancellation and only if no effective fault occurred. Banner '
       'transparency is decided on the real tool: kinds {2:00, 1:00, aborted} x five forms x every command position of the guarded region; outcome and '
       'change commands must equal the banner-free run and the one-minute warning must re-arm the reload.',
  design_ref='DESIGN.md section 4, C15',
  note='Trusted: the five banner forms as produced by sim/simdev.py. Known findings F-C15-1, F-C15-2; F-C15-3 fixed.',
  technique='Coq theorem over the dialogue interpreter + banner form/position enumeration on the real tool'),
 'C17': dict(
  text='C17_masked_login_url_independent_of_password: the PAN-OS login URL as logged and as embedded in error messages is the same string for '
       'every password (QueryEscape emits no separator, so the mask covers the whole value); the model is compared with the logged line. All '
       'sinks of real runs (session logs, run log, history, status, stdout, stderr) on five families, success and every failure kind/position, '
       'are scanned for password, API key and session token, plain and URL-encoded.',
  design_ref='DESIGN.md section 4, C17',
  note='Trusted: simulators do not echo passwords. Known finding F-C17-1 (API key in transport error messages, pinned by tests).',
  technique='Coq theorem on the masking of the login URL + byte scan of all sinks over fault enumeration'),
 'C12': dict(
  text='C12_mutual_exclusion: for every schedule of lock attempts, effects, exits and kills of any number of invocations at most one '
       'process per device holds the lock and a rejected run has touched nothing; C12_lock_released_with_holder / C12_free_lock_is_acquired: '
       'the lock goes with its holder. C12_call_order_of_the_front_ends is re-proved on every run against call sequences regenerated from '
       'doapprove/main.go and drc/main.go (nothing effectful before the lock is taken and checked). Real processes: a holder parked by the '
       'simulator in each phase, 2-3 contenders through both front-ends and five spellings of the device, holder released or killed, later run; '
       'all processes run with GOGC=1 so that garbage collection (finalizers of unreferenced file handles) is part of the explored schedule.',
  design_ref='DESIGN.md section 4, C12',
  note='Trusted: flock(2) semantics (exclusive, non-blocking, released on exit or kill) = the lock table of Lock/Model.v, validated by the '
       'multi-process runs; the regex translator for the call order.',
  technique='Coq invariant over all schedules + source-order translator + multi-process runs with parked holder'),
 'C19': dict(
  text='Gen/NewpolicyScript.v is regenerated from bin/newpolicy.sh on every run (each simple command mapped to an abstract operation; unknown '
       'commands break the tie) and must pass the verified checker; C19_invariant_for_all_histories_and_kill_points then gives, for every history '
       'of compiling / non-compiling revisions and every kill position of every run: current absent or a complete directory, nothing moved into '
       'an existing directory, numbers strictly increasing, a non-compiling commit never changes current. The real script is killed before each '
       'of its ~90 simple commands (real git, stub compiler) for three histories, followed by an undisturbed run; two invocations at once, and a second '
       'invocation while the first is parked before its K-th command (an invocation that finds the lock taken must leave the database untouched). The parts of '
       'the script that are not translated statement by statement (top-level skeleton, uptodate, try_revert, main) are tied by their text.',
  design_ref='DESIGN.md section 4, C19',
  note='Trusted: git and flock(1); the regex translator; push failures not modelled. Liveness: Newpolicy/Live.v models the directory next, the marker failed, '
       'the revision of current, the head of the repository and the test uptodate; C19_marker_only_with_failed_compile (invariant over all histories of commits and '
       'runs killed after any operation) and C19_newest_compiling_head_becomes_current (then one undisturbed run makes a head that compiles current and a further run '
       'finds everything up to date) hold for the generated script; C19_liveness_before_8e2c570_refuted is the witness for the script before the repair. Tie of this model: '
       'every run of the kill enumeration is observed before and after (next, marker, revisions) and compared with the model in Coq (a killed run must end in a state some '
       'prefix of the operations produces, an undisturbed run in the state of the whole run); the text of uptodate() is tied by its hash. Not modelled: try_revert and the '
       'loop of main (runs in which a revert commit appears are not compared); the theorem speaks about a head that compiles.',
  technique='Translator from shell to abstract operations + verified checker (Coq) + kill-point enumeration on the real script'),
 'C18': dict(
  text='List-level Gallina model of mergeASAACLs / mergeIOSACLs / the Linux rule loop / the PAN-OS rulebase merge with four theorems for '
       'every ACL, raw part and permit predicate (every entry exactly once, order inside each part preserved, raw entries first, [APPEND] '
       'entries behind the last permitting entry and before the trailing non-permitting ones). The effective target printed by drc for a '
       'device without rules is compared entry by entry with the model and judged by the property predicates in Coq, for ASA (v4, v4+v6, '
       'raw, [APPEND]), IOS, Linux and PAN-OS, including ACLs without permitting entries and only-[APPEND] parts.',
  design_ref='DESIGN.md section 4, C18',
  note='Trusted: Coq kernel; the generator/renderers of vlib/c18.py. NSX raw merge (append to the policy) and the diagnostics for unmergeable '
       'raw entries are covered by the repository tests and C20 only. F-C18-1..4 fixed.',
  technique='Coq theorems on a list-level merge model + differential check of the effective target'),
 'C16': dict(
  text='Every `range` over a Go map (and every maps.Keys/Values/All not consumed by slices.Sorted*) in the planning, parsing, device and '
       'program packages is inventoried from the current source with go/types on every run and regenerated as Gen/MapRanges.v; '
       '`unreviewed = []` is a theorem, so a new or edited loop breaks the proof until it has been reviewed as an instance of one of five '
       'patterns (per-key update, set union, collect-then-sort, existential search, any-element-with-agreement). For each pattern the result '
       'is proved independent of the iteration order for every permutation of the keys. Search: the freshly built drc is run repeatedly in '
       'fresh processes on every file-compare example of go/testdata (expanded by the library the tests use) and on inputs with ties; stdout, '
       'stderr and exit status are compared byte for byte.',
  design_ref='DESIGN.md section 4, C16',
  note='Trusted: Coq kernel; the inventory tool (harness/cmd/nah/maprange.go, go/types); the review table vlib/maprange_sites.py that assigns '
       'each loop its pattern (by reading; invalidated by any change of the loop text). Three order-dependent loops were found by this review '
       'and repaired (fix: commits 68f7ba5, e9f8c0d, 07c618b) in addition to the four of the design round.',
  technique='Coq theorems (order-independence of five loop patterns over all permutations) + source inventory regenerated per run + repeated-run differential check'),
 'C20': dict(
  text='Executable Gallina model of the Cisco parser (go/pkg/cisco/parse.go: ParseConfig line loop, lookupCmd, matchCmd, postprocessParsed with '
       'the ACL normalisation, transform-set references, route metric, aaa-server lines, checkReferences; IOS removeBanner) and of dstOfRoute / '
       'routeVRF, in which every index and slice expression of the Go code is an operation that can panic. Theorems: for every text, raw or '
       'not, every table of command descriptions that passes the boolean check tables_ok and every content of the name tables the outcome '
       'is a configuration, an error message or the deliberate Incomplete-string panic, never a runtime panic; postprocessACLParts is total, '
       'keeps the token count and collects at most five references; the route field extraction is total. The command descriptions and name '
       'tables are regenerated from the source on every run through a build-tag hook (the real setupCmdDescr on cmdInfo of pkg/asa and '
       'pkg/ios) and tables_ok of them is re-proved by computation. Tie: the real ParseConfig (hook dump of the parsed configuration, error or '
       'panic) is compared with the model on test-data files and members of the family (whole parsed structure). Search: the property\'s '
       'finite family (all five device types, device / Netspoc / IPv6 / raw / info files; quick: a stratified sample, thorough: all of it) '
       'through the built drc, and token mutations of info, status, configuration and credentials files through do-approve and missing-approve.',
  design_ref='DESIGN.md section 4, C20',
  note='Partial: the theorem covers the Cisco parser and the route field extraction; the Cisco diff code, the Linux, NSX and PAN-OS parsers and '
       'the info/status/config readers are decided by the enumerated family only (thorough tier: exhaustive over the family). Trusted: Coq '
       'kernel; hook go/pkg/cisco/verif_hooks.go (build tag verif) and harness/cmd/nah/ciscoparse.go; byte-level model (ASCII white space). '
       'Eight runtime panics found while modelling were repaired (F-C20-3..10); two deliberate panic(err) sites that the repository tests '
       'expect are recorded as known findings (F-C20-1, F-C20-2).',
  extra_note=' Added: the Linux parser (ParseConfig, parseRoutes, parseIPTables) has its own GoSlice-style model (Robust/LinuxParse.v) with C20_linux_parse_never_runtime_panic for every text; tie: outcome class (accepted / which of the eight diagnostics) of drc against the model on Linux members of the family.',
  technique='Coq theorems (no runtime panic of a GoSlice-style parser model for all texts and all tables passing tables_ok) + tables regenerated from source + differential check of the parsed configuration + exhaustive run of the finite input family'),
 'C03': dict(
  text='Strict Gallina semantics of a PAN-OS vsys candidate configuration and of the XML-API commands drc emits (set = create / merge, edit = '
       'replace, delete, move before; references must exist, referenced objects cannot be deleted, names are unique) and a list-level model of '
       'diffRules\' position logic. Theorems: for every device rulebase and every edit script in the normal form that the Myers library '
       'guarantees, the planned commands (deletions at once, every inserted rule appended with set and moved before the next surviving rule) '
       'are all accepted and produce exactly the order the script describes; set / move / delete of a rule act on the candidate configuration '
       'as in that list model and every other command leaves the rule sequence unchanged; the oracle is equality of the rulebases with '
       'addresses, groups, services and service-groups expanded to their content. Tie and search: for generated vsys pairs the commands '
       'printed by the built drc are parsed, compared with the plan of the model for the reconstructed edit script, executed by the device '
       'semantics inside Coq and judged by the oracle; the rendered result is compared a second time by drc (no change), and an empty script '
       'is accepted only if the device was already equivalent.',
  design_ref='DESIGN.md section 4, C03',
  note='Partial: the proof covers the rule order and the device/oracle properties; member-list equalisation, group reuse and object transfer '
       'are decided by executing the real commands on the model (differential check with the oracle), not by a theorem. Trusted: Coq kernel; '
       'the command parser and XML rendering of vlib/panos.py; the assumed XML-API semantics (set merges, edit replaces) are from the PAN-OS '
       'documentation. F-C03-1 fixed (466f163); F-C03-2 (service-group members are only added) is a known finding.',
  technique='Coq theorems (rule-order convergence of the diffRules plan for all scripts in normal form; device frame; oracle soundness) + differential execution of the emitted commands on the Coq device semantics'),
 'C04': dict(
  text='Strict Gallina object store of an NSX-T manager (gateway policies with rules, groups, services carrying the Netspoc prefix) and of the '
       'REST calls drc emits (PUT creates or replaces, PATCH / DELETE / POST ?action=add|remove need the id, a referenced group or service '
       'cannot be deleted, references to Netspoc ids must exist). Theorems: the oracle is equality of the per-policy multisets of rules with '
       'groups expanded to address sets and services to their definitions; equalising a group by removing what the target does not have and '
       'adding what is new is accepted and yields exactly the target address set for all old and new lists, as does the PATCH branch; requests '
       'on groups and services leave the policies untouched and requests on policies and rules leave groups and services untouched. Tie and '
       'search: for generated manager / target pairs the requests printed by the built drc are parsed, executed by the object store inside '
       'Coq and judged by the oracle, including the absence of left-over Netspoc services and unused Netspoc groups; the rendered result is '
       'compared a second time by drc (no change), and an empty request list is accepted only if the manager was already equivalent.',
  design_ref='DESIGN.md section 4, C04',
  note='Partial: rule diffing, group reuse (findGroupOnDevice / adaptGroup) and id uniquifying are decided by executing the real requests on the '
       'model, not by a theorem. Trusted: Coq kernel; request parser and JSON rendering of vlib/nsx.py; the assumed REST semantics are from the '
       'NSX-T Policy API documentation. The id-clash defect F-C03-1 was repaired for NSX in the same commit (466f163).',
  technique='Coq theorems (oracle soundness, group equalisation converges for all address lists, frame of the request kinds) + differential execution of the emitted REST calls on the Coq object store'),
}
