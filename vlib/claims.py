"""What MANIFEST.json claims per property (tools/mkmanifest.py renders it)."""
NOT_BUILT = {}
CLAIMS = {
 'C13': dict(
  text='Both halves of the property are Coq theorems (C13_never_forgets, C13_omits_established) over every history of the '
       'eight event kinds with a strictly increasing clock, proved by a refinement invariant between the two status slots and '
       'the latest conclusive observation computed from the history alone. The executable model is tied to status.go and '
       'missing-approve on every run by replaying generated histories on the real writers and the real binary and comparing '
       'the listing and the slots after every event inside Coq; the same Coq predicate is evaluated on the printed listing to '
       'find failing histories.',
  design_ref='DESIGN.md section 4, C13',
  note='Trusted: Coq kernel; the world model of policy directories (plain/bz2/removed) and of damage (= json.Unmarshal rejects the file); '
       'the harness (vlib/c13.py, harness/cmd/nah/status.go). The mapping from do-approve outcomes to SetApprove/SetCompare flags is C09.',
  technique='Coq refinement invariant over histories + differential replay of histories on status.go/missing-approve'),
 'C05': dict(
  text='Convergence of the route half is a Coq theorem over all duplicate-free route lists (C05_routes_converge: executing the emitted '
       'add/del/replace commands on a kernel table holding the device routes never fails and yields exactly the target routes; '
       'C05_routes_unchanged_iff: nothing is emitted iff the sets are equal). The iptables half (option parsing, normalisation of kernel '
       'spellings, first-difference report, raw merge, restore file) is an executable Gallina model; the whole stdout of drc must equal the '
       'model output on generated device/target pairs in both spellings, and the generator independently knows whether the device is a '
       're-spelling or a semantic edit of the target.',
  design_ref='DESIGN.md section 4, C05',
  note='Trusted: Coq kernel; the kernel routing-table semantics (add fails iff the same destination+hop is present); the list of kernel '
       're-spellings (no iptables binary in the sandbox); the harness vlib/c05.py. Partial: the normaliser is tied by correspondence, the '
       'soundness theorem covers the structural diff; real kernel behaviour cannot be exhibited.',
  technique='Coq proof of route-script convergence on a kernel-table semantics + exact differential of drc output against the Gallina model'),
}
