"""C07 for PAN-OS and NSX: nothing outside the targeted vsys is addressed by a
command; no request addresses an NSX object whose id lacks the Netspoc prefix
(the manager simulator also holds policies, groups and services of other owners)."""
import json, re
from vlib import panos as P
from vlib import nsx as N
from vlib import session as S
from vlib import drcrun


def panos_scope(ctx, n):
    rng = ctx.rng
    cases, jobs = [], []
    for _ in range(n):
        t1 = P.gen_target(rng)
        d1, e1 = P.mutate(rng, t1)
        other = P.gen_target(rng)                     # a vsys of the device that the target does not mention
        o2, _ = P.mutate(rng, other)
        names = rng.choice([('vsys1', 'vsys2'), ('vsys2', 'vsys1'), ('vsys1', 'vsys3')])
        dev = [(names[0], d1), (names[1], o2)]
        if rng.random() < 0.5:
            dev.reverse()
        tgt = [(names[0], t1)]
        cases.append(dict(dev=dev, tgt=tgt, target_vsys=names[0], edits=e1))
        jobs.append(dict(model='PAN-OS', device=P.config_xml(dev), netspoc=P.config_xml(tgt)))
    failing, ncmds = [], 0
    for c, job, r in zip(cases, jobs, drcrun.run_many(ctx, jobs)):
        if r['rc'] != 0:
            continue
        for ln in r['out'].split('\n'):
            if not ln.startswith('action='):
                continue
            ncmds += 1
            m = re.search(r"xpath=/config/devices/entry\[@name='[^']*'\]/vsys/entry\[@name='([^']*)'\]", ln)
            if not m or m.group(1) != c['target_vsys']:
                failing.append(dict(what='PAN-OS: a command addresses configuration outside the targeted vsys %s: %s' % (c['target_vsys'], ln[:160]),
                                    replay=dict(model='PAN-OS', command='drc -q device code/router', device=job['device'], netspoc=job['netspoc'], stdout=r['out'])))
                break
    return failing, dict(panos_cases=n, panos_commands=ncmds)


FOREIGN = dict(
    policies=[dict(id='Customer-v1', resource_type='GatewayPolicy', rules=[dict(resource_type='Rule', id='c1', scope=['/infra/tier-0s/v1'], direction='OUT',
                   ip_protocol='IPV4', sequence_number=20, action='ALLOW', source_groups=['/infra/domains/default/groups/external1'],
                   destination_groups=['10.5.5.5'], services=['/infra/services/HTTP'])])],
    groups=[dict(id='external1', expression=[dict(id='id', resource_type='IPAddressExpression', ip_addresses=['10.1.1.10', '10.1.1.11'])]),
            dict(id='NoNetspoc-g0', expression=[dict(id='id', resource_type='IPAddressExpression', ip_addresses=['10.6.6.6'])])],
    services=[dict(id='HTTP', service_entries=[dict(id='id', resource_type='L4PortSetServiceEntry', l4_protocol='TCP', destination_ports=['80'], source_ports=[])]),
              dict(id='netspoc-lowercase', service_entries=[dict(id='id', resource_type='L4PortSetServiceEntry', l4_protocol='TCP', destination_ports=['81'], source_ports=[])])])

URL = re.compile(r'/policy/api/v1/infra/(?:services|domains/default/groups|domains/default/gateway-policies)/([^/?\s]+)')


def nsx_scope(ctx, n):
    rng = ctx.rng
    jobs, cases = [], []
    for _ in range(n):
        t = N.gen_target(rng)
        d, e = N.mutate(rng, t)
        dj = json.loads(N.conf_json(d))
        # the manager also holds objects of other owners; some have the content of target groups
        extra_groups = list(FOREIGN['groups'])
        if t['groups'] and rng.random() < 0.7:
            g = sorted(t['groups'])[0]
            extra_groups.append(dict(id='Other-' + g, expression=[dict(id='id', resource_type='IPAddressExpression', ip_addresses=list(t['groups'][g]))]))
        sc = dict(policies=dj['policies'] + FOREIGN['policies'], groups=dj['groups'] + extra_groups, services=dj['services'] + FOREIGN['services'])
        cases.append(dict(edits=e, scenario=sc, target=N.conf_json(t)))
        jobs.append(dict(fam='NSX', front='do-approve', mode='approve', sc_extra=sc, target=N.conf_json(t), timeout_s=5))
    failing, nreq = [], 0
    for c, r in zip(cases, S.run_sessions(ctx, jobs)):
        for e in r['transcript']:
            text = e[2]
            method = text.split(' ', 1)[0]
            if method in ('PUT', 'PATCH', 'POST', 'DELETE') and '/infra/' in text:
                nreq += 1
                m = URL.search(text)
                if m and not m.group(1).startswith('Netspoc'):
                    failing.append(dict(what='NSX: a request changes an object whose id lacks the Netspoc prefix: %s' % text[:140],
                                        replay=dict(model='NSX', command='do-approve approve router (simulated manager, nah httpsim)', manager=c['scenario'],
                                                    netspoc=c['target'], transcript=[x[2][:200] for x in r['transcript']], rc=r['rc'], stderr=r['err'][-300:])))
                    break
    return failing, dict(nsx_sessions=n, nsx_change_requests=nreq)
