"""The finite family of C20: deterministic mutations of every configuration
line of the repository's test data (word-prefix truncations, single-token
deletions, duplications, swaps, indentation changes, empty / garbage / cut
files), for all device types and both argument positions."""
import hashlib, json, os, re

GARBAGE = ['', '\n', '\x00\xff\xfe', '{', '<', '[APPEND]\n', 'garbage words here\n', ' indented first line\n',
           '<config><devices><entry></config>', '{"groups": [{}], "policies": [{"rules": [{}]}], "services": [{}]}',
           '[]', 'null', '"', '*filter\n', 'COMMIT\n', '!\n']

TOK_XML = re.compile(r'<[^<>]*>|[^<>\s]+|\s+')
TOK_JSON = re.compile(r'"(?:[^"\\]|\\.)*"|[{}\[\]:,]|[^\s{}\[\]:,"]+|\s+')


def is_struct(text):
    t = text.lstrip()
    return t[:1] in ('<', '{', '[') and not t.startswith('[APPEND]')


def line_mutations(line):
    ind = len(line) - len(line.lstrip(' '))
    words = line.split()
    pre = ' ' * ind
    out = []
    n = len(words)
    for k in range(1, n):
        out.append(('trunc%d' % k, pre + ' '.join(words[:k])))
    if n > 1:
        for i in range(n):
            out.append(('del%d' % i, pre + ' '.join(words[:i] + words[i + 1:])))
    for i in range(n):
        out.append(('dup%d' % i, pre + ' '.join(words[:i + 1] + words[i:])))
    for i in range(n - 1):
        w = list(words)
        w[i], w[i + 1] = w[i + 1], w[i]
        out.append(('swap%d' % i, pre + ' '.join(w)))
    out.append(('indent+1', ' ' + line))
    out.append(('indent+2', '  ' + line))
    if ind:
        out.append(('indent-1', line[1:]))
    if n > 1:
        out.append(('gap', pre + words[0] + '  ' + ' '.join(words[1:])))
    # the line cut behind / in front of each punctuation character of its first two words (":" of ":CHAIN", "-" of "-A", ...)
    head = pre + ' '.join(words[:2])
    for i in range(ind, len(head)):
        ch = head[i]
        if not (ch.isalnum() or ch == ' '):
            out.append(('cutc%d' % i, head[:i + 1]))
            if i > ind:
                out.append(('cutb%d' % i, head[:i]))
    return out


NUM = re.compile(r'[0-9]+')


def file_mutations(text, ctxseen=None):
    """yields (label, new text, context key).  ctxseen: set of digit-normalised
    (parent, previous line, line) contexts already mutated — such lines are skipped."""
    if is_struct(text):
        rx = TOK_JSON if text.lstrip()[:1] in '{[' else TOK_XML
        toks = rx.findall(text)
        idx = [i for i, t in enumerate(toks) if t.strip()]
        for n, i in enumerate(idx):
            if ctxseen is not None:
                key = NUM.sub('N', '|'.join(toks[j] for j in idx[max(0, n - 2):n + 2]))
                if key in ctxseen:
                    continue
                ctxseen.add(key)
            yield 'tok-del%d' % i, ''.join(toks[:i] + toks[i + 1:])
            yield 'tok-dup%d' % i, ''.join(toks[:i + 1] + toks[i:])
            yield 'tok-trunc%d' % i, ''.join(toks[:i])
            if n + 1 < len(idx):
                t = list(toks)
                b = idx[n + 1]
                t[i], t[b] = t[b], t[i]
                yield 'tok-swap%d' % i, ''.join(t)
        # structural mutations: every JSON value replaced by null; every member of an XML entry replaced by the name of
        # that entry (an object that refers to itself)
        if rx is TOK_JSON:
            try:
                doc = json.loads(text[text.index('{'):] if text.lstrip().startswith('#') else text)
            except ValueError:
                doc = None
            if doc is not None:
                paths = []

                def walk(node, path):
                    if path:
                        paths.append(path)
                    if isinstance(node, dict):
                        for k_ in node:
                            walk(node[k_], path + [k_])
                    elif isinstance(node, list):
                        for i_, x in enumerate(node):
                            walk(x, path + [i_])
                walk(doc, [])
                import copy
                for path in paths:
                    key = 'null|' + NUM.sub('N', '/'.join(str(x) if isinstance(x, str) else '#' for x in path))
                    if ctxseen is not None:
                        if key in ctxseen:
                            continue
                        ctxseen.add(key)
                    d2 = copy.deepcopy(doc)
                    n_ = d2
                    for x in path[:-1]:
                        n_ = n_[x]
                    n_[path[-1]] = None
                    yield 'json-null-' + '/'.join(map(str, path)), json.dumps(d2)
        else:
            names = [(m.start(), m.group(1)) for m in re.finditer(r'<entry name="([^"]*)"', text)]
            for m in re.finditer(r'<member>([^<]*)</member>', text):
                owner = [nm for pos, nm in names if pos < m.start()]
                if not owner or owner[-1] == m.group(1):
                    continue
                if ctxseen is not None:
                    key = 'self|' + NUM.sub('N', owner[-1] + '|' + m.group(1))
                    if key in ctxseen:
                        continue
                    ctxseen.add(key)
                yield 'xml-self-member%d' % m.start(), text[:m.start(1)] + owner[-1] + text[m.end(1):]
            # every innermost <entry> element (a rule, an address, a group, a service) removed as a whole: what refers to it stays
            for m in re.finditer(r'<entry name="([^"]*)"[^<>]*>(?:(?!<entry\b).)*?</entry>', text, re.S):
                if ctxseen is not None:
                    key = 'dropentry|' + NUM.sub('N', m.group(1))
                    if key in ctxseen:
                        continue
                    ctxseen.add(key)
                yield 'xml-drop-entry%d' % m.start(), text[:m.start()] + text[m.end():]
    else:
        lines = text.split('\n')
        if lines and lines[-1] == '':
            lines.pop()
        parent = ''
        for i, ln in enumerate(lines):
            if not ln.strip():
                continue
            if ln[0] != ' ':
                parent = ln
            if ctxseen is not None:
                key = NUM.sub('N', '%s|%s|%s' % (parent, lines[i - 1] if i else '', ln))
                if key in ctxseen:
                    continue
                ctxseen.add(key)
            for lab, new in line_mutations(ln):
                yield 'line%d-%s' % (i, lab), '\n'.join(lines[:i] + [new] + lines[i + 1:]) + '\n'
            yield 'line%d-drop' % i, '\n'.join(lines[:i] + lines[i + 1:]) + '\n'
            yield 'line%d-twice' % i, '\n'.join(lines[:i + 1] + lines[i:]) + '\n'
            if i:
                yield 'cut%d' % i, '\n'.join(lines[:i]) + '\n'
                yield 'line%d-swapup' % i, '\n'.join(lines[:i - 1] + [lines[i], lines[i - 1]] + lines[i + 1:]) + '\n'
    for k, g in enumerate(GARBAGE):
        yield 'garbage%d' % k, g


def H(s):
    return hashlib.sha1(s.encode('utf-8', 'surrogateescape')).digest()


def family(index, global_dedupe=False):
    """index: output of `nah testdata`.  Yields cases dict(base, model, file, label, files={rel: text}).
    Deduplicated by the complete content of the input files; lines whose context (parent, previous
    line, line) equals an earlier one of the same file up to numerals are mutated once
    (global_dedupe: once over the whole family — the stratified quick sample)."""
    seen = set()
    gctx = {}
    for e in index:
        base = {}
        for rel in e['files']:
            p = os.path.join(e['dir'], rel)
            try:
                base[rel] = open(p, encoding='utf-8', errors='surrogateescape').read()
            except OSError:
                base[rel] = ''
        hs = dict((rel, H(base[rel])) for rel in base)
        for rel in sorted(base):
            role = rel.replace('code/', '')
            if role.endswith('.info'):
                # the effect of the info file does not depend on the configuration files
                others = b''
            else:
                others = b''.join(hs[r] for r in sorted(base) if r != rel)
            ctx = gctx.setdefault((e['model'], role), set()) if global_dedupe else set()
            for lab, new in file_mutations(base[rel], ctx):
                h = H(e['model'] + '\0' + rel + '\0' + new) + others
                if h in seen:
                    continue
                seen.add(h)
                files = dict(base)
                files[rel] = new
                yield dict(base='%s: %s' % (e['file'], e['title']), model=e['model'], file=rel, label=lab, files=files)
