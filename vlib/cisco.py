"""Generators, renderers, script parser and Coq emission for the ASA / IOS
checks (C01, C02, C07, C08, C10, C14).  A configuration is a dict
  intfs : [name]                      interfaces known to this side
  groups: {name: (typ tokens, [member tokens])}
  acls  : {name: [line tokens]}       ASA: ['extended','permit',...]; IOS: ['permit',...]
  binds : {loc tuple: acl name}       ASA loc ('in','interface',I) / ('global',); IOS (I,'in')
  routes: [tokens]
  intf_sub: {name: [sub-command text]}   (IOS: ip address ...)"""
import copy, json, random, re
from vlib import common as C

HOSTS = ['10.0.0.%d' % i for i in range(1, 9)]
NETS = [('10.1.%d.0' % i, '255.255.255.0', '0.0.0.255') for i in range(1, 4)]


# ------------------------------------------------------------------ generation
def gen_addr(rng, ios, groups=None):
    r = rng.random()
    if groups and r < 0.25:
        return ['object-group', rng.choice(groups)]
    if r < 0.6:
        return ['host', rng.choice(HOSTS)]
    if r < 0.8:
        n = rng.choice(NETS)
        return [n[0], n[2] if ios else n[1]]
    return ['any' if ios else 'any4']


def gen_line(rng, ios, groups=None, action=None):
    act = action or rng.choice(['permit', 'permit', 'permit', 'deny'])
    proto = rng.choice(['ip', 'ip', 'tcp', 'udp'])
    t = [act, proto] + gen_addr(rng, ios, groups) + gen_addr(rng, ios, groups)
    if proto in ('tcp', 'udp') and rng.random() < 0.7:
        t += rng.choice([['eq', '22'], ['eq', '80'], ['range', '1024', '65535'], ['eq', '443']])
    lg = rng.random()
    if lg < 0.12:
        t += ['log']
    elif lg < 0.18 and not ios:
        t += ['log', '3']
    elif lg < 0.2 and ios:
        t += ['log-input']
    return t if ios else ['extended'] + t


def body_key(line, ios):
    """entry without log attribute (two entries equal up to it cannot coexist)"""
    out, i = [], 0
    while i < len(line):
        if line[i] in ('log', 'log-input'):
            i += 1
            if i < len(line) and re.fullmatch(r'\d+|disable|default', line[i]):
                i += 1
            continue
        out.append(line[i])
        i += 1
    return tuple(out)


def gen_acl(rng, ios, groups, n=None, blocks=False):
    n = n if n is not None else rng.choice([1, 2, 3, 4, 5, 6, 8])
    lines, seen = [], set()
    action = None
    tries = 0
    while len(lines) < n and tries < 200:
        tries += 1
        if blocks and (action is None or rng.random() < 0.3):
            action = rng.choice(['permit', 'deny'])
        l = gen_line(rng, ios, groups, action if blocks else None)
        k = body_key(l, ios)
        if k in seen:
            continue
        seen.add(k)
        lines.append(l)
    if rng.random() < 0.5:
        l = (['deny', 'ip', 'any', 'any'] if ios else ['extended', 'deny', 'ip', 'any4', 'any4'])
        if body_key(l, ios) not in seen:
            lines.append(l)
    return lines


def gen_routes(rng, ios, intfs):
    out, dsts = [], set()
    for _ in range(rng.choice([0, 0, 1, 2, 3])):
        n = rng.choice([('10.20.0.0', '255.255.0.0'), ('10.30.0.0', '255.255.0.0'), ('0.0.0.0', '0.0.0.0'),
                        ('10.40.1.0', '255.255.255.0'), ('10.50.0.0', '255.255.0.0')])
        if n in dsts:
            continue
        dsts.add(n)
        gw = '10.9.9.%d' % rng.randrange(1, 4)
        out.append((['ip', 'route'] if ios else ['route', rng.choice(intfs)]) + [n[0], n[1], gw])
    return out


def gen_target(rng, ios, with_groups=True, blocks=False):
    nint = rng.choice([1, 1, 2, 3])
    intfs = (['Ethernet%d' % i for i in range(nint)] if ios else ['inside', 'outside', 'dmz'][:nint])
    cfg = dict(intfs=list(intfs), groups={}, acls={}, binds={}, routes=[], intf_sub={})
    gnames = []
    if with_groups and not ios:
        for i in range(rng.choice([0, 0, 1, 2, 3])):
            name = 'g%d' % i
            mem = sorted(set(rng.choice(HOSTS) for _ in range(rng.randint(2, 5))))
            cfg['groups'][name] = (['network'], [['network-object', 'host', h] for h in mem])
            gnames.append(name)
    used = set()
    for i, intf in enumerate(intfs):
        if ios:
            cfg['intf_sub'][intf] = ['ip address 10.%d.0.1 255.255.255.0' % (i + 1)]
        for d in (['in'] if rng.random() < 0.8 else ['in', 'out']):
            if rng.random() < 0.1:
                continue
            if cfg['acls'] and rng.random() < 0.15:
                name = rng.choice(sorted(cfg['acls']))       # ACL shared between interfaces
            else:
                name = '%s_%s' % (intf, d)
                cfg['acls'][name] = gen_acl(rng, ios, gnames, blocks=blocks)
            cfg['binds'][(intf, d) if ios else (d, 'interface', intf)] = name
    # drop groups no line uses (Netspoc only emits referenced objects)
    for a in cfg['acls'].values():
        for l in a:
            used.update(refs(l))
    cfg['groups'] = {g: v for g, v in cfg['groups'].items() if g in used}
    cfg['routes'] = gen_routes(rng, ios, intfs)
    return cfg


def refs(line):
    return [line[i + 1] for i in range(len(line) - 1) if line[i] == 'object-group']


def rename_refs(line, m):
    out = list(line)
    for i in range(len(out) - 1):
        if out[i] == 'object-group' and out[i + 1] in m:
            out[i + 1] = m[out[i + 1]]
    return out


def mutate(rng, tgt, ios, with_groups=True, unmanaged=True, max_edits=None):
    """A device configuration derived from the target by random edits."""
    dev = copy.deepcopy(tgt)
    info = dict(unm_acls=[], unm_groups=[], unm_locs=[], unm_routes=[], keep=[], edits=[])
    # names on the device: plain, or generated by an earlier run
    gmap = {}
    for g in list(dev['groups']):
        if rng.random() < 0.6:
            gmap[g] = '%s-DRC-%d' % (g, rng.randrange(3))
    dev['groups'] = {gmap.get(g, g): v for g, v in dev['groups'].items()}
    amap = {}
    for a in list(dev['acls']):
        if rng.random() < 0.5:
            amap[a] = '%s-DRC-%d' % (a, rng.randrange(3))
    dev['acls'] = {amap.get(a, a): [rename_refs(l, gmap) for l in ls] for a, ls in dev['acls'].items()}
    dev['binds'] = {loc: amap.get(a, a) for loc, a in dev['binds'].items()}
    nedit = max_edits if max_edits is not None else rng.choice([0, 1, 1, 2, 3, 4, 6])
    gn = sorted(dev['groups'])
    for _ in range(nedit):
        op = rng.random()
        an = sorted(dev['acls'])
        if op < 0.5 and an:
            a = rng.choice(an)
            ls = dev['acls'][a]
            m = rng.random()
            bodies = set(body_key(l, ios) for l in ls)
            if ios and rng.random() < 0.35 and len(ls) > 2:
                # one run mixing new lines of either action with lines moved from nearby
                g = rng.randrange(len(ls) + 1)
                near = list(ls[max(0, g - 4):g + 4])
                cluster = []
                for _ in range(rng.randint(2, 4)):
                    if near and rng.random() < 0.5:
                        x = near.pop(rng.randrange(len(near)))
                        if x not in cluster:
                            cluster.append(x)
                    else:
                        l = gen_line(rng, ios, None)
                        if body_key(l, ios) not in bodies:
                            bodies.add(body_key(l, ios))
                            cluster.append(l)
                anchor = ls[g] if g < len(ls) and ls[g] not in cluster else None
                rest = [x for x in ls if x not in cluster]
                g2 = rest.index(anchor) if anchor in rest else min(g, len(rest))
                rest[g2:g2] = cluster
                ls[:] = rest
                info['edits'].append('cluster')
            elif m < 0.3:
                l = gen_line(rng, ios, gn if with_groups and not ios else None)
                if body_key(l, ios) not in bodies:
                    ls.insert(rng.randrange(len(ls) + 1), l)
                    info['edits'].append('ins-line')
            elif m < 0.55 and len(ls) > 1:
                ls.pop(rng.randrange(len(ls)))
                info['edits'].append('del-line')
            elif m < 0.85 and len(ls) > 1:
                i = rng.randrange(len(ls))
                l = ls.pop(i)
                ls.insert(rng.randrange(len(ls) + 1), l)
                info['edits'].append('move-line')
            elif ls:
                i = rng.randrange(len(ls))
                l = list(ls[i])
                if 'log' in l or 'log-input' in l:
                    l = list(body_key(l, ios))
                else:
                    l = l + ['log']
                ls[i] = l
                info['edits'].append('log-flip')
        elif op < 0.75 and gn and with_groups:
            g = rng.choice(gn)
            typ, mem = dev['groups'][g]
            m = rng.random()
            if m < 0.3:
                h = ['network-object', 'host', rng.choice(HOSTS)]
                if h not in mem:
                    mem.append(h)
                    mem.sort()
                    info['edits'].append('grp-add')
            elif m < 0.55 and len(mem) > 1:
                mem.pop(rng.randrange(len(mem)))
                info['edits'].append('grp-del')
            elif m < 0.7:
                mem[:] = [['network-object', 'host', '10.7.7.%d' % i] for i in range(1, rng.randint(2, 4))]
                info['edits'].append('grp-replace')
            elif m < 0.85:
                # an identical copy under another generated name (left over, unused)
                dev['groups']['%s-DRC-%d' % (g.split('-DRC-')[0], 5 + rng.randrange(3))] = (list(typ), copy.deepcopy(mem))
                info['edits'].append('grp-dup')
            else:
                # split: one referencing line gets its own copy of the group
                users = [(a, i) for a, ls in dev['acls'].items() for i, l in enumerate(ls) if g in refs(l)]
                if len(users) > 1:
                    a, i = rng.choice(users)
                    n2 = '%s-DRC-%d' % (g.split('-DRC-')[0], 8)
                    if n2 not in dev['groups']:
                        dev['groups'][n2] = (list(typ), copy.deepcopy(mem))
                        dev['acls'][a][i] = rename_refs(dev['acls'][a][i], {g: n2})
                        info['edits'].append('grp-split')
        elif op < 0.85:
            rts = dev['routes']
            m = rng.random()
            if m < 0.4 and rts:
                rts.pop(rng.randrange(len(rts)))
                info['edits'].append('route-del')
            elif m < 0.7 and rts:
                i = rng.randrange(len(rts))
                rts[i] = rts[i][:-1] + ['10.9.8.%d' % rng.randrange(1, 4)]
                info['edits'].append('route-hop')
            else:
                n = rng.choice([('10.60.0.0', '255.255.0.0'), ('10.70.0.0', '255.255.0.0')])
                if tgt['routes'] and not any(r[-3:-1] == list(n) for r in rts):
                    rts.append((['ip', 'route'] if ios else ['route', dev['intfs'][0]]) + [n[0], n[1], '10.9.9.9'])
                    info['edits'].append('route-add')
        elif op < 0.93 and dev['binds']:
            loc = rng.choice(sorted(dev['binds']))
            m = rng.random()
            if m < 0.5:
                # binding missing on the device (ACL left over or absent)
                a = dev['binds'].pop(loc)
                if not any(x == a for x in dev['binds'].values()):
                    if rng.random() < 0.5 or '-DRC-' not in a:
                        dev['acls'].pop(a, None)
                info['edits'].append('unbind')
            else:
                # a completely different ACL is bound
                n2 = 'old_%s-DRC-%d' % (loc[-1] if not ios else loc[0], rng.randrange(2))
                if n2 not in dev['acls']:
                    dev['acls'][n2] = gen_acl(rng, ios, None, n=rng.choice([1, 2, 3]))
                    old = dev['binds'][loc]
                    dev['binds'][loc] = n2
                    if not any(x == old for x in dev['binds'].values()):
                        dev['acls'].pop(old, None)
                    info['edits'].append('rebind')
        else:
            # extra binding the target does not have
            intf = rng.choice(dev['intfs'])
            loc = (intf, 'out') if ios else ('out', 'interface', intf)
            if loc not in dev['binds'] and loc not in tgt['binds']:
                n2 = 'extra_%s-DRC-0' % intf
                dev['acls'][n2] = gen_acl(rng, ios, None, n=2)
                dev['binds'][loc] = n2
                info['edits'].append('extra-bind')
    if with_groups and not ios and dev['acls'] and rng.random() < 0.25:
        # a device group is edited in place for one line; a later line needs the old content of that group, its own
        # device group being too different to be edited
        a = rng.choice(sorted(dev['acls']))
        ta = next((k for k, v in amap.items() if v == a), a)
        if ta in tgt['acls'] and 'gS' not in tgt['groups']:
            E = [['network-object', 'host', '10.44.0.%d' % i] for i in (1, 2, 3)]
            X = E[:2] + [['network-object', 'host', '10.44.0.9']]
            FAR = [['network-object', 'host', '10.55.0.%d' % i] for i in (1, 2, 3, 4)]
            l1 = ['extended', 'permit', 'udp', 'object-group', 'gS', 'any4', 'eq', '4501']
            l2 = ['extended', 'permit', 'udp', 'object-group', 'gT', 'any4', 'eq', '4502']
            tgt['groups']['gS'] = (['network'], copy.deepcopy(X))
            tgt['groups']['gT'] = (['network'], copy.deepcopy(E))
            dev['groups']['dS'] = (['network'], copy.deepcopy(E))
            dev['groups']['dT'] = (['network'], copy.deepcopy(FAR))
            order = rng.random() < 0.7
            tgt['acls'][ta][0:0] = [l1, l2] if order else [l2, l1]
            d1, d2 = rename_refs(l1, {'gS': 'dS'}), rename_refs(l2, {'gT': 'dT'})
            dev['acls'][a][0:0] = [d1, d2] if order else [d2, d1]
            info['edits'].append('grp-shift')
    if with_groups and not ios and dev['acls'] and rng.random() < 0.25:
        # a device group gets a member in place (sub-mode of the group), then a line of the same ACL is deleted by a
        # top-level command and the group only that line used becomes unused: mode changes between sub-mode and top level
        a = rng.choice(sorted(dev['acls']))
        ta = next((k for k, v in amap.items() if v == a), a)
        if ta in tgt['acls'] and 'gE' not in tgt['groups']:
            E = [['network-object', 'host', '10.45.0.%d' % i] for i in (1, 2, 3)]
            l1 = ['extended', 'permit', 'udp', 'object-group', 'gE', 'any4', 'eq', '4601']
            lo = ['extended', 'permit', 'udp', 'object-group', 'dOld-DRC-1', 'any4', 'eq', '4602']
            tgt['groups']['gE'] = (['network'], copy.deepcopy(E) + [['network-object', 'host', '10.45.0.%d' % rng.choice([4, 5])]])
            dev['groups']['dE-DRC-0'] = (['network'], copy.deepcopy(E))
            dev['groups']['dOld-DRC-1'] = (['network'], [['network-object', 'host', '10.46.0.1'], ['network-object', 'host', '10.46.0.2']])
            tgt['acls'][ta][0:0] = [l1]
            dev['acls'][a][0:0] = [rename_refs(l1, {'gE': 'dE-DRC-0'}), lo] if rng.random() < 0.7 else [lo, rename_refs(l1, {'gE': 'dE-DRC-0'})]
            info['edits'].append('grp-edit-del')
    if with_groups and not ios and dev['acls'] and rng.random() < 0.2:
        # the group of a kept line is replaced (its content changes too much for an edit in place) and an ordinary line of
        # the other action above it is deleted: the order of the two deletions matters for the packets of the deleted line
        a = rng.choice(sorted(dev['acls']))
        ta = next((k for k, v in amap.items() if v == a), a)
        if ta in tgt['acls'] and 'gBlock' not in tgt['groups'] and 'gBlock' not in dev['groups']:
            act, other = rng.choice([('deny', 'permit'), ('permit', 'deny')])
            lg = ['extended', act, 'ip', 'object-group', 'gBlock', 'any4']
            lo = ['extended', other, 'tcp', 'host', '10.66.1.%d' % rng.randrange(1, 9), 'any4', 'eq', '22']
            tgt['groups']['gBlock'] = (['network'], [['network-object', '10.77.7.0', '255.255.255.0']])
            dev['groups']['gBlock'] = (['network'], [['network-object', '10.66.1.0', '255.255.255.0'], ['network-object', '10.66.2.0', '255.255.255.0']])
            tgt['acls'][ta][0:0] = [lg]
            dev['acls'][a][0:0] = [lo, lg]
            info['edits'].append('grp-replace-under-del')
    used = set(r for ls in dev['acls'].values() for l in ls for r in refs(l))
    for g in list(dev['groups']):
        if g not in used and '-DRC-' not in g:
            dev['groups'].pop(g)
    if unmanaged and rng.random() < 0.5:
        # content outside Netspoc's scope
        if not ios:
            dev['intfs'].append('mgmt')
            if rng.random() < 0.5:
                dev.setdefault('shut', []).append('mgmt')      # an unknown interface that is administratively down
            dev['groups']['admins'] = (['network'], [['network-object', 'host', '10.99.0.1'], ['network-object', 'host', '10.99.0.2']])
            dev['acls']['mgmt_in'] = [['extended', 'permit', 'tcp', 'object-group', 'admins', 'any4', 'eq', '22'],
                                      ['extended', 'deny', 'ip', 'any4', 'any4']]
            dev['binds'][('in', 'interface', 'mgmt')] = 'mgmt_in'
            info['unm_acls'].append('mgmt_in')
            info['unm_groups'].append('admins')
            info['unm_locs'].append(('in', 'interface', 'mgmt'))
            if rng.random() < 0.5:
                # a generated-looking ACL still referenced from the unknown interface
                dev['acls']['keep-DRC-0'] = [['extended', 'permit', 'ip', 'host', '10.99.0.9', 'any4']]
                dev['binds'][('out', 'interface', 'mgmt')] = 'keep-DRC-0'
                info['unm_acls'].append('keep-DRC-0')
                info['unm_locs'].append(('out', 'interface', 'mgmt'))
                info['keep'].append('keep-DRC-0')
            dev['groups']['spare'] = (['network'], [['network-object', 'host', '10.99.1.1']])
            info['unm_groups'].append('spare')
            dev['acls']['unused_acl'] = [['extended', 'permit', 'ip', 'any4', 'host', '10.99.1.2']]
            if rng.random() < 0.6:
                # a later line of an unmanaged ACL uses a generated-looking group that nothing else uses
                dev['groups']['left-DRC-7'] = (['network'], [['network-object', 'host', '10.99.2.1'], ['network-object', 'host', '10.99.2.2']])
                dev['acls']['unused_acl'].append(['extended', 'permit', 'ip', 'object-group', 'left-DRC-7', 'any4'])
                info['unm_groups'].append('left-DRC-7')
                info['keep'].append('left-DRC-7')
            info['unm_acls'].append('unused_acl')
            if rng.random() < 0.5:
                # a manually configured crypto map (not bound, no -DRC- name) still uses a generated ACL of two lines;
                # only the second line uses the generated group
                dev['groups']['oldgrp-DRC-0'] = (['network'], [['network-object', 'host', '10.99.3.3'], ['network-object', 'host', '10.99.3.4']])
                dev['acls']['oldvpn-DRC-0'] = [['extended', 'permit', 'ip', 'host', '10.99.3.2', 'any4'],
                                               ['extended', 'permit', 'ip', 'object-group', 'oldgrp-DRC-0', 'any4']]
                dev.setdefault('extra_header', []).extend(['crypto map legacy 10 match address oldvpn-DRC-0', 'crypto map legacy 10 set peer 10.99.3.1'])
                info['unm_acls'].append('oldvpn-DRC-0')
                info['unm_groups'].append('oldgrp-DRC-0')
                info['keep'] += ['oldvpn-DRC-0', 'oldgrp-DRC-0']
            if not tgt['routes'] and rng.random() < 0.5:
                r = ['route', 'mgmt', '10.88.0.0', '255.255.0.0', '10.99.0.254']
                dev['routes'].append(r)
                info['unm_routes'].append(r)
        else:
            dev['acls']['unused_acl'] = [['permit', 'ip', 'any', 'host', '10.99.1.2']]
            info['unm_acls'].append('unused_acl')
            if not tgt['routes'] and rng.random() < 0.5:
                r = ['ip', 'route', '10.88.0.0', '255.255.0.0', '10.99.0.254']
                dev['routes'].append(r)
                info['unm_routes'].append(r)
    return dev, info


# ------------------------------------------------------------------ rendering
def asa_header(cfg):
    out = []
    for i, n in enumerate(cfg['intfs']):
        out += ['interface Ethernet0/%d' % i] + ([' shutdown'] if n in cfg.get('shut', []) else []) + [' nameif %s' % n]
    return out + list(cfg.get('extra_header', []))


def render_asa(cfg, device):
    out = asa_header(cfg) if device else []
    for g in cfg['groups']:
        typ, mem = cfg['groups'][g]
        out.append('object-group %s %s' % (' '.join(typ), g))
        out += [' ' + ' '.join(m) for m in mem]
    for a in cfg['acls']:
        out += ['access-list %s %s' % (a, ' '.join(l)) for l in cfg['acls'][a]]
    for loc in cfg['binds']:
        out.append('access-group %s %s' % (cfg['binds'][loc], ' '.join(loc)))
    out += [' '.join(r) for r in cfg['routes']]
    return '\n'.join(out) + '\n'


def render_ios(cfg):
    out = []
    for a in cfg['acls']:
        out.append('ip access-list extended ' + a)
        out += [' ' + ' '.join(l) for l in cfg['acls'][a]]
    for i in cfg['intfs']:
        out.append('interface ' + i)
        out += [' ' + s for s in cfg['intf_sub'].get(i, [])]
        for loc in cfg['binds']:
            if loc[0] == i:
                out.append(' ip access-group %s %s' % (cfg['binds'][loc], loc[1]))
    out += [' '.join(r) for r in cfg['routes']]
    return '\n'.join(out) + '\n'


def render(cfg, ios, device):
    return render_ios(cfg) if ios else render_asa(cfg, device)


# ------------------------------------------------------------------ script parsing
def parse_cmd(text, ios):
    if '\\N ' in text:
        a, b = text.split('\\N ', 1)
        return ('join', parse_cmd(a, ios), parse_cmd(b, ios))
    w = text.split()
    neg = bool(w) and w[0] == 'no'
    v = w[1:] if neg else w
    if not v:
        return ('other', text)
    if not ios:
        if v[0] == 'access-list' and len(v) >= 3:
            name, rest = v[1], v[2:]
            line = None
            if rest[0] == 'line' and len(rest) > 2 and rest[1].isdigit():
                line, rest = int(rest[1]), rest[2:]
            return ('acldel' if neg else 'acladd', name, line, rest)
        if v[:3] == ['clear', 'configure', 'access-list'] and len(v) == 4 and not neg:
            return ('aclclear', v[3])
        if v[0] == 'object-group' and len(v) >= 3:
            typ = [v[1]] + v[3:]
            return ('nogroup' if neg else 'group', typ, v[2])
        if v[0] == 'access-group' and len(v) >= 3:
            return ('bind', neg, v[1], v[2:])
        if v[0] == 'route' or v[:2] == ['ipv6', 'route']:
            return ('route', neg, v)
        if text == 'exit':
            return ('exit',)
        if v[0] in ('network-object', 'port-object', 'service-object', 'protocol-object', 'icmp-object', 'group-object', 'description'):
            return ('sub', neg, v)
        return ('other', text)
    if v[:3] == ['ip', 'access-list', 'resequence'] and len(v) == 6 and not neg:
        return ('reseq', v[3], int(v[4]), int(v[5]))
    if v[:3] == ['ip', 'access-list', 'extended'] and len(v) == 4:
        return ('aclclear', v[3]) if neg else ('enteracl', v[3])
    if v[0] == 'interface' and len(v) == 2 and not neg:
        return ('enterintf', v[1])
    if v[:2] == ['ip', 'route']:
        return ('route', neg, v)
    if text == 'exit':
        return ('exit',)
    if v[0].isdigit() or v[0] in ('permit', 'deny', 'remark') or v[:2] == ['ip', 'access-group']:
        return ('sub', neg, v)
    return ('other', text)


def parse_script(out, ios):
    return [parse_cmd(l, ios) for l in out.split('\n') if l.strip()]


# ------------------------------------------------------------------ Coq terms
def ctoks(t):
    return C.clist([C.cstr(x) for x in t])


def c_cmd(c):
    k = c[0]
    if k == 'join':
        return '(CJoin %s %s)' % (c_cmd(c[1]), c_cmd(c[2]))
    if k in ('acladd', 'acldel'):
        return '(%s %s %s %s)' % ('CAclAdd' if k == 'acladd' else 'CAclDel', C.cstr(c[1]),
                                  C.copt(c[2], C.cnat), ctoks(c[3]))
    if k == 'aclclear':
        return '(CAclClear %s)' % C.cstr(c[1])
    if k in ('group', 'nogroup'):
        return '(%s %s %s)' % ('CGroup' if k == 'group' else 'CNoGroup', ctoks(c[1]), C.cstr(c[2]))
    if k == 'sub':
        return '(CSub %s %s)' % (C.cbool(c[1]), ctoks(c[2]))
    if k == 'bind':
        return '(CBind %s %s %s)' % (C.cbool(c[1]), C.cstr(c[2]), ctoks(c[3]))
    if k == 'route':
        return '(CRoute %s %s)' % (C.cbool(c[1]), ctoks(c[2]))
    if k == 'enteracl':
        return '(CEnterAcl %s)' % C.cstr(c[1])
    if k == 'enterintf':
        return '(CEnterIntf %s)' % C.cstr(c[1])
    if k == 'reseq':
        return '(CReseq %s %s %s)' % (C.cstr(c[1]), C.cnat(c[2]), C.cnat(c[3]))
    if k == 'exit':
        return 'CExit'
    return '(COther %s)' % C.cstr(c[1])


def c_dev(cfg, ios):
    acls = C.clist(['(%s, %s)' % (C.cstr(a), C.clist(['(%s, %s)' % (C.cnat((i + 1) * 10 if ios else 0), ctoks(l))
                                                        for i, l in enumerate(ls)]))
                    for a, ls in cfg['acls'].items()])
    groups = C.clist(['(%s, (%s, %s))' % (C.cstr(g), ctoks(v[0]), C.clist([ctoks(m) for m in v[1]]))
                      for g, v in cfg['groups'].items()])
    binds = C.clist(['(%s, %s)' % (ctoks(loc), C.cstr(a)) for loc, a in cfg['binds'].items()])
    routes = C.clist([ctoks(r) for r in cfg['routes']])
    return '{| d_acls := %s; d_groups := %s; d_binds := %s; d_routes := %s; d_mode := MTop |}' % (acls, groups, binds, routes)


def managed_locs(tgt, ios):
    locs = []
    if ios:
        for i in tgt['intfs']:
            locs += [(i, 'in'), (i, 'out')]
    else:
        known = sorted(set(loc[2] for loc in tgt['binds'] if len(loc) == 3))
        for i in known:
            locs += [('in', 'interface', i), ('out', 'interface', i)]
        locs.append(('global',))
    return locs


def packet_table(dev, tgt, ios, rng):
    """Abstract matchers over a small packet universe: every distinct entry body
    gets a pseudo-random subset (stable per body)."""
    npk = 12
    bodies = {}
    for cfg in (dev, tgt):
        for ls in cfg['acls'].values():
            for l in ls:
                if refs(l):
                    return [], 0      # group membership edits are outside C14
                b = body_key(l, ios)[1 if ios else 2:]
                if b not in bodies:
                    h = random.Random(' '.join(b))
                    if b[:1] == ('ip',) and b[-2:] in (('any', 'any'), ('any4', 'any4')):
                        bodies[b] = list(range(npk))
                    else:
                        bodies[b] = [p for p in range(npk) if h.random() < 0.3]
    return [(list(b), pk) for b, pk in bodies.items()], npk


def c_ocase(ios, dev, tgt, info, script, mt, npk):
    unm = '{| u_acls := %s; u_groups := %s; u_locs := %s; u_routes := %s |}' % (
        C.clist([C.cstr(x) for x in info['unm_acls']]), C.clist([C.cstr(x) for x in info['unm_groups']]),
        C.clist([ctoks(x) for x in info['unm_locs']]), C.clist([ctoks(x) for x in info['unm_routes']]))
    mtc = C.clist(['(%s, %s)' % (ctoks(b), C.clist([C.cnat(p) for p in pk])) for b, pk in mt])
    return ('{| o_ios := %s; o_dev := %s; o_tgt := %s; o_locs := %s; o_keep := %s; o_unm := %s; o_mt := %s; o_npk := %s; '
            'o_script := %s; o_header := %s; o_intfs := %s |}' % (
                C.cbool(ios), c_dev(dev, ios), c_dev(tgt, ios), C.clist([ctoks(l) for l in managed_locs(tgt, ios)]),
                C.clist([C.cstr(x) for x in info['keep']]), unm, mtc, C.cnat(npk),
                C.clist([c_cmd(c) for c in script]),
                C.clist([C.cstr(x) for x in (asa_header(dev) if not ios else [])]),
                C.clist(['(%s, %s)' % (C.cstr(i), C.clist([C.cstr(s) for s in dev['intf_sub'].get(i, [])])) for i in dev['intfs']] if ios else [])))


PRELUDE = ('From Coq Require Import List String.\nFrom NA Require Import Base.Str Cisco.Device Cisco.Oracle.\n'
           'Import ListNotations.\nOpen Scope string_scope.\n')


# ------------------------------------------------------------------ parsing Coq output
def parse_coq_term(s):
    """Parses the value printed by `Print X` for nested lists / pairs / strings / numbers."""
    m = re.search(r'=\s', s)
    s = s[m.end():]
    # cut the trailing type annotation
    pos = [0]

    def ws():
        while pos[0] < len(s) and s[pos[0]].isspace():
            pos[0] += 1

    def term():
        ws()
        c = s[pos[0]]
        if c == '[':
            pos[0] += 1
            items = []
            ws()
            if s[pos[0]] == ']':
                pos[0] += 1
            else:
                while True:
                    items.append(term())
                    ws()
                    if s[pos[0]] == ';':
                        pos[0] += 1
                        continue
                    if s[pos[0]] == ']':
                        pos[0] += 1
                        break
                    raise RuntimeError('list parse at %d: %r' % (pos[0], s[pos[0]:pos[0] + 30]))
            suffix()
            return items
        if c == '(':
            pos[0] += 1
            items = [term()]
            ws()
            while s[pos[0]] == ',':
                pos[0] += 1
                items.append(term())
                ws()
            if s[pos[0]] != ')':
                raise RuntimeError('tuple parse at %d' % pos[0])
            pos[0] += 1
            suffix()
            return tuple(items)
        if c == '"':
            pos[0] += 1
            out = []
            while True:
                ch = s[pos[0]]
                if ch == '"':
                    if s[pos[0] + 1:pos[0] + 2] == '"':
                        out.append('"')
                        pos[0] += 2
                        continue
                    pos[0] += 1
                    break
                out.append(ch)
                pos[0] += 1
            suffix()
            return ''.join(out)
        m2 = re.match(r'\d+', s[pos[0]:])
        if m2:
            pos[0] += m2.end()
            suffix()
            return int(m2.group(0))
        m2 = re.match(r'[A-Za-z_][\w\.]*', s[pos[0]:])
        if m2:
            pos[0] += m2.end()
            return m2.group(0)
        raise RuntimeError('term parse at %d: %r' % (pos[0], s[pos[0]:pos[0] + 30]))

    def suffix():
        m3 = re.match(r'%\w+', s[pos[0]:])
        if m3:
            pos[0] += m3.end()
    return term()


def eval_ocases(ctx, name, ocases, fn='run_ocase', shard=60):
    out = []
    for s in range(0, len(ocases), shard):
        text = (PRELUDE + 'Definition cases : list ocase := %s.\n'
                'Definition R := Eval vm_compute in map %s cases.\nPrint R.\n' % (C.clist(ocases[s:s + shard]), fn))
        res = parse_coq_term(ctx.coq_eval('%s_%d' % (name, s), text))
        if len(res) != len(ocases[s:s + shard]):
            raise RuntimeError('result count mismatch')
        out += res
    return out


# ------------------------------------------------------------------ ACL cores (single ACL, no groups)
def core_pool(ios):
    """Distinct entry bodies with an id; entry = (body id, log id)."""
    bodies = []
    for act in ('permit', 'deny'):
        for i in range(1, 9):
            bodies.append([act, 'ip', 'host', '10.0.0.%d' % i] + (['any'] if ios else ['any4']))
    if ios:
        for i in range(1, 5):
            bodies.append(['remark', 'note%d' % i])
    return bodies


def add_remarks(rng, al, bl, pool):
    """IOS: remark lines in the device ACL, the target ACL or both, at independent places."""
    rem = [i for i, b in enumerate(pool) if b[0] == 'remark']
    rng.shuffle(rem)
    al, bl = list(al), list(bl)
    for r in rem[:rng.randint(1, 3)]:
        where = rng.random()
        if where < 0.75:
            al.insert(rng.randrange(len(al) + 1), (r, 0))
        if where > 0.25:
            bl.insert(rng.randrange(len(bl) + 1), (r, 0))
    return al, bl


LOGS = [[], ['log'], ['log', '3']]
LOGS_IOS = [[], ['log'], ['log-input']]


def core_text(entry, pool, ios):
    b, lg = entry
    t = pool[b] + (LOGS_IOS if ios else LOGS)[lg]
    return t if ios else ['extended'] + t


def gen_core_case_blocks(rng, pool):
    """IOS: device ACL made of permit/deny blocks; target derived by nearby moves,
    inserts of either action and deletes (the shapes the block logic is about)."""
    perm = [i for i, b in enumerate(pool) if b[0] == 'permit']
    deny = [i for i, b in enumerate(pool) if b[0] == 'deny']
    rng.shuffle(perm)
    rng.shuffle(deny)
    al, act = [], rng.choice([0, 1])
    want = rng.randint(3, 9)
    while len(al) < want and perm and deny:
        src = perm if act == 0 else deny
        for _ in range(min(rng.randint(1, 4), len(src))):
            al.append((src.pop(), rng.choice([0, 0, 0, 1])))
        act ^= 1
    bl = list(al)
    if rng.random() < 0.5 and len(bl) > 2:
        # one insert run mixing new lines of either action with lines moved from nearby
        g = rng.randrange(len(bl) + 1)
        near = [x for x in bl[max(0, g - 4):g + 4]]
        cluster = []
        for _ in range(rng.randint(2, 4)):
            if near and rng.random() < 0.45:
                x = near.pop(rng.randrange(len(near)))
                if x not in cluster:
                    cluster.append(x)
            else:
                src = perm if rng.random() < 0.5 else deny
                if src:
                    cluster.append((src.pop(), 0))
        anchor = bl[g] if g < len(bl) and bl[g] not in cluster else None
        bl = [x for x in bl if x not in cluster]
        g2 = bl.index(anchor) if anchor in bl else min(g, len(bl))
        bl[g2:g2] = cluster
    for _ in range(rng.choice([0, 1, 2, 2, 3])):
        op = rng.random()
        if op < 0.45 and len(bl) > 1:
            i = rng.randrange(len(bl))
            x = bl.pop(i)
            j = max(0, min(len(bl), i + rng.choice([-3, -2, -1, 1, 2, 3])))
            bl.insert(j, x)
        elif op < 0.8:
            src = perm if rng.random() < 0.5 else deny
            if src:
                bl.insert(rng.randrange(len(bl) + 1), (src.pop(), rng.choice([0, 0, 1, 2])))
        elif op < 0.9 and len(bl) > 1:
            bl.pop(rng.randrange(len(bl)))
        elif bl:
            i = rng.randrange(len(bl))
            bl[i] = (bl[i][0], (bl[i][1] + 1) % 3)
    return al, bl


def gen_core_case_split(rng, pool):
    """IOS: a line is moved inside its block and a line of the other action is inserted between its old and its new
    place (the block must be split, the move is needed), in either direction, in one or two insert ranges, optionally
    with remark lines next to the insert position."""
    perm = [i for i, b in enumerate(pool) if b[0] == 'permit']
    deny = [i for i, b in enumerate(pool) if b[0] == 'deny']
    rem = [i for i, b in enumerate(pool) if b[0] == 'remark']
    rng.shuffle(perm); rng.shuffle(deny); rng.shuffle(rem)
    mine, other = (perm, deny) if rng.random() < 0.5 else (deny, perm)
    block = [(mine.pop(), 0) for _ in range(rng.randint(3, 5))]
    pre = [(other.pop(), 0) for _ in range(rng.choice([0, 0, 1, 2]))]
    post = [(other.pop(), 0) for _ in range(rng.choice([0, 1, 1, 2]))]
    i, j = sorted(rng.sample(range(len(block)), 2))
    new = (other.pop(), 0)
    tb = list(block)
    if rng.random() < 0.5:
        x = tb.pop(j)                   # moved up to place i, the new line somewhere between
        tb.insert(i, x)
        k = rng.randint(i + 1, j)
    else:
        x = tb.pop(i)                   # moved down behind place j
        tb.insert(j, x)
        k = rng.randint(i, j - 1) if j - 1 >= i else i
        k = max(k, 0)
    tb.insert(min(k, len(tb)), new)
    al, bl = pre + block + post, pre + tb + post
    if rem and rng.random() < 0.5:
        # a remark directly in front of or behind the new line, in both ACLs, at the same lines
        r = (rem.pop(), 0)
        p = bl.index(new)
        nb = bl[p + 1] if rng.random() < 0.5 and p + 1 < len(bl) else None
        if nb is not None and nb in al:
            al.insert(al.index(nb), r)
            bl.insert(bl.index(nb), r)
        elif p > 0 and bl[p - 1] in al:
            a = bl[p - 1]
            al.insert(al.index(a) + 1, r)
            bl.insert(bl.index(a) + 1, r)
    return al, bl


def gen_core_case(rng, ios, pool):
    if ios:
        if rng.random() < 0.25:
            return gen_core_case_split(rng, pool)
        rules = [b for b in pool if b[0] != 'remark']
        al, bl = gen_core_case_rules(rng, ios, rules)
        return add_remarks(rng, al, bl, pool) if rng.random() < 0.35 else (al, bl)
    return gen_core_case_rules(rng, ios, pool)


def gen_core_case_rules(rng, ios, pool):
    if ios and rng.random() < 0.7:
        return gen_core_case_blocks(rng, pool)
    n = rng.randint(1, 7)
    ids = rng.sample(range(len(pool)), n)
    bl = [(i, rng.choice([0, 0, 0, 1, 2])) for i in ids]
    al = list(bl)
    for _ in range(rng.choice([1, 1, 2, 3, 4])):
        op = rng.random()
        used = set(b for b, _ in al)
        if op < 0.3:
            free = [i for i in range(len(pool)) if i not in used]
            if free:
                al.insert(rng.randrange(len(al) + 1), (rng.choice(free), rng.choice([0, 0, 1])))
        elif op < 0.5 and len(al) > 1:
            al.pop(rng.randrange(len(al)))
        elif op < 0.85 and len(al) > 1:
            x = al.pop(rng.randrange(len(al)))
            al.insert(rng.randrange(len(al) + 1), x)
        elif al:
            i = rng.randrange(len(al))
            al[i] = (al[i][0], (al[i][1] + 1) % 3)
    return al, bl


def ranges_to_script(ranges, al, bl):
    m = []
    for la, ha, lb, hb in ranges:
        if la == ha:
            m += [('Add', e) for e in bl[lb:hb]]
        elif lb == hb:
            m += [('Drop', e) for e in al[la:ha]]
        else:
            m += [('Keep', e) for e in al[la:ha]]
    return m


def c_script(m):
    return C.clist(['(%s, (%s, %s))' % (t, C.cnat(e[0]), C.cnat(e[1])) for t, e in m])


def myers_ranges(ctx, pairs):
    """pairs: list of (keys_a, keys_b) -> list of range lists, through the library the tool uses."""
    import subprocess, os
    inp = ''.join(json.dumps(dict(A=a, B=b)) + '\n' for a, b in pairs)
    p = subprocess.run([os.path.join(ctx.bin, 'nah'), 'myers'], input=inp, text=True,
                       stdout=subprocess.PIPE, stderr=subprocess.PIPE, timeout=300)
    if p.returncode != 0:
        raise RuntimeError('nah myers failed: ' + p.stderr[-300:])
    return [json.loads(l) for l in p.stdout.splitlines()]
