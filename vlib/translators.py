"""Translators: regenerate coq/theories/Gen/*.v from /repo's current source.
Each returns a list of messages for ties that are broken (empty = fine)."""


def regenerate(ctx):
    msgs = []
    for fn in REGISTRY:
        try:
            msgs += fn(ctx) or []
        except Exception as e:   # a translator that cannot read the source is a broken tie
            msgs.append('translator %s failed: %r' % (fn.__name__, e))
    return msgs


REGISTRY = []
