"""C14, Linux routes: tie of Linux/Model.v diff_routes (theorems C14_linux_routes_covered_stepwise,
C14_linux_routes_prefix_cover_stepwise) to linux.diffRoutes on route-only configurations with nested
destinations (the same network address under several prefix lengths, summaries, default route, host
routes): the script printed by drc must be the model's script, and executed on the kernel table of the
model every probed address that is covered by a route before and after (prefix containment,
Linux.Check.covers_addr) must be covered after every command (oracle_routes = 0)."""
from vlib import common as C
from vlib import drcrun

HOPS = ['10.9.1.1', '10.9.1.2', '10.9.2.1', '10.9.3.7']
DSTS = ['10.1.0.0/16', '10.1.0.0/24', '10.1.0.0/20', '10.0.0.0/8', '10.1.1.0/24', '10.1.1.0/28', '10.1.1.5', '10.1.1.5/32', 'default', '0.0.0.0/0',
        '10.2.0.0/16', '10.2.0.0/17', '10.2.128.0/17', '192.168.0.0/24', '192.168.0.0/16', '10.1.0.0/30']


def corpus():
    out = []
    # a summary is replaced by a more specific route of the same network address and a wider summary (seed C14-3)
    out.append((['10.1.0.0/16 via 10.9.1.1', '10.2.0.0/16 via 10.9.1.1'],
                ['10.1.0.0/24 via 10.9.1.2', '10.0.0.0/8 via 10.9.1.1', '10.2.0.0/16 via 10.9.1.1']))
    # the default route changes its next hop while a summary becomes two halves
    out.append((['default via 10.9.1.1', '10.2.0.0/16 via 10.9.1.2'],
                ['0.0.0.0/0 via 10.9.2.1', '10.2.0.0/17 via 10.9.1.2', '10.2.128.0/17 via 10.9.1.2']))
    # the same network address under two prefix lengths on the device, one of them changes its next hop
    out.append((['10.1.0.0/16 via 10.9.1.1 dev eth0', '10.1.0.0/24 via 10.9.1.1 dev eth0'],
                ['10.1.0.0/16 via 10.9.1.1', '10.1.0.0/24 via 10.9.1.2']))
    return out


def gen_case(rng):
    n = rng.choice([1, 2, 3, 4, 6])
    b = set()
    while len(b) < n:
        b.add((rng.choice(DSTS), rng.choice(HOPS)))
    # one next hop per destination in the target
    seen, bl = set(), []
    for d, h in sorted(b):
        key = 'default' if d == '0.0.0.0/0' else (d[:-3] if d.endswith('/32') else d)
        if key not in seen:
            seen.add(key)
            bl.append((d, h))
    rng.shuffle(bl)
    a = list(bl)
    for _ in range(rng.choice([1, 1, 2, 3, 4])):
        op = rng.random()
        if op < 0.3 and a:
            a.pop(rng.randrange(len(a)))
        elif op < 0.6:
            a.append((rng.choice(DSTS), rng.choice(HOPS)))
        elif a:
            i = rng.randrange(len(a))
            if rng.random() < 0.5:
                a[i] = (a[i][0], rng.choice(HOPS))
            else:
                # the same network address under another prefix length
                ip = a[i][0].split('/')[0]
                cand = [d for d in DSTS if d.split('/')[0] == ip and d != a[i][0]]
                if cand:
                    a[i] = (rng.choice(cand), a[i][1])
    a = list(dict.fromkeys(a))
    rng.shuffle(a)
    al = ['%s via %s%s' % (d, h, (' dev eth%d' % rng.randrange(2)) if rng.random() < 0.5 else '') for d, h in a]
    return al, ['%s via %s' % r for r in bl]


def c_rconfig(lines):
    return '{| rc_routes := %s; rc_tables := [] |}' % C.clist(['(%s, %s)' % (C.cstr(r), C.clist([C.cstr(w) for w in r.split()])) for r in lines])


def icmds_of(out):
    res = []
    for ln in out.split('\n'):
        if ln.startswith('ip route '):
            if '\\N ' in ln:
                x, y = ln.split('\\N ', 1)
                x, y = x[len('ip route del '):], y[len('ip route add '):]
                res.append('(IRepl %s %s %s %s)' % (C.cstr(x), C.clist([C.cstr(w) for w in x.split()]), C.cstr(y), C.clist([C.cstr(w) for w in y.split()])))
            else:
                kind = 'IAdd' if ln.startswith('ip route add ') else 'IDel'
                x = ln[len('ip route add '):]
                res.append('(%s %s %s)' % (kind, C.cstr(x), C.clist([C.cstr(w) for w in x.split()])))
    return res


WHY = {1: 'an emitted ip route command is refused by the kernel table (route present / absent)',
       2: 'executing the emitted ip route commands does not yield the target routes',
       3: 'a destination routed before and after loses its route at an intermediate step',
       4: 'an address covered by a route before and after (prefix containment) is not covered after an intermediate command'}


def check(ctx, n, prop='C14'):
    """-> (number of cases, failing, breaks, number of scripts with commands)"""
    cases = corpus() + [gen_case(ctx.rng) for _ in range(n)]
    jobs = [dict(model='Linux', device='\n'.join('ip route add ' + r for r in al) + '\n', netspoc='\n'.join('ip route add ' + r for r in bl) + '\n')
            for al, bl in cases]
    res = drcrun.run_many(ctx, jobs)
    ctexts = []
    for (al, bl), r in zip(cases, res):
        lines = r['out'].split('\n')
        if lines and lines[-1] == '':
            lines.pop()
        out = 'None' if r['rc'] != 0 else '(Some %s)' % C.clist([C.cstr(x) for x in lines])
        ctexts.append('{| k_dev := %s; k_parts := [%s]; k_out := %s; k_cmds := %s |}' % (c_rconfig(al), c_rconfig(bl), out, C.clist(icmds_of(r['out']))))
    verdicts = []
    shard = 200
    for s in range(0, len(ctexts), shard):
        text = ('From Coq Require Import List String.\nFrom NA Require Import Base.Str Linux.Model Linux.Check.\n'
                'Import ListNotations.\nOpen Scope string_scope.\n'
                'Definition cases : list case := %s.\nDefinition V := Eval vm_compute in verdicts cases.\nPrint V.\n' % C.clist(ctexts[s:s + shard]))
        v = C.parse_verdict_list(ctx.coq_eval('cases_linuxroutes_%d' % s, text), 2 * len(ctexts[s:s + shard]))
        verdicts += [(v[i], v[i + 1]) for i in range(0, len(v), 2)]
    failing, breaks, nontriv = [], [], 0
    for job, r, (cm, om) in zip(jobs, res, verdicts):
        rep = dict(property=prop, files=dict(device=job['device'], netspoc=job['netspoc']), model='Linux', command='drc -q device code/router',
                   stdout=r['out'], stderr=r['err'][-600:], rc=r['rc'])
        if r['out'].strip():
            nontriv += 1
        if r['panic'] or r['rc'] == 'hang':
            failing.append(dict(what='drc crashed or hung on route-only Linux configurations', replay=rep, finding=None, key='lr-crash'))
        elif om:
            rep['oracle'] = 'Linux.Check.oracle_routes = %d: %s' % (om, WHY[om])
            failing.append(dict(what='Linux routes: ' + WHY[om], replay=rep, finding=None, key='lr-routes%d' % om))
        elif cm:
            breaks.append(dict(correspondence='Linux.Model.drc_output (diff_routes) vs drc on route-only configurations', case=rep))
    return len(cases), failing, breaks, nontriv
