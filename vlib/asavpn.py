"""ASA crypto maps with crypto ACLs, IKEv1 transform-sets and IKEv2 ipsec-proposals:
generator, rendering, execution of the emitted commands on Cisco/Vpn.v (used by
C01: convergence and second compare, C08: every command accepted, C10: resume)."""
import re
from vlib import common as C
from vlib import drcrun
from vlib.cisco import parse_coq_term

S = C.cbytes
HEADER = 'interface Ethernet0/0\n nameif inside\ninterface Ethernet0/1\n nameif outside\n'
WHY = {1: 'an object that does not exist is referenced', 2: 'an object that is still referenced is removed',
       3: 'no such object or attribute', 6: 'command not understood by the device model'}
ENC = ['aes-256', 'aes-192', 'aes', '3des']
INT = ['sha-1', 'sha-256', 'md5']
TS = ['esp-3des esp-md5-hmac', 'esp-aes-256 esp-sha-hmac', 'esp-aes-192 esp-sha-hmac']


def new_cfg(mapname='crypto-outside'):
    return dict(map=mapname, intf='outside', entries=[], acls={}, tsets={}, props={})


def gen_target(rng):
    c = new_cfg()
    n = rng.choice([1, 2, 2, 3, 4])
    peers = rng.sample(range(1, 9), n)
    for i, p in enumerate(sorted(peers)):
        acl = 'crypto-outside-%d' % (i + 1)
        c['acls'][acl] = [['extended', 'permit', 'ip', 'any4', '10.0.%d.0' % p, '255.255.255.0']] + (
            [['extended', 'permit', 'ip', 'any4', 'host', '10.9.%d.1' % p]] if rng.random() < 0.3 else [])
        attrs = [(['match', 'address'], [acl]), (['set', 'peer'], ['10.0.0.%d' % p])]
        if rng.random() < 0.6:
            attrs.append((['set', 'pfs'], [rng.choice(['group19', 'group20', 'group5'])]))
        if rng.random() < 0.5:
            t = 'Trans%d' % rng.choice([1, 2])
            c['tsets'].setdefault(t, TS[int(t[-1]) - 1].split())
            attrs.append((['set', 'ikev1', 'transform-set'], [t]))
        else:
            pr = 'Proposal%d' % rng.choice([1, 2])
            if pr not in c['props']:
                c['props'][pr] = [(['protocol', 'esp', 'encryption'], rng.sample(ENC, rng.choice([1, 2]))),
                                  (['protocol', 'esp', 'integrity'], [rng.choice(INT)])]
            attrs.append((['set', 'ikev2', 'ipsec-proposal'], [pr]))
        if rng.random() < 0.3:
            attrs.append((['set', 'security-association', 'lifetime', 'seconds'], [rng.choice(['3600', '1800'])]))
        c['entries'].append(dict(seq=str(i + 1), attrs=attrs))
    return c


def copy_cfg(c):
    return dict(map=c['map'], intf=c['intf'], entries=[dict(seq=e['seq'], attrs=[(list(k), list(v)) for k, v in e['attrs']]) for e in c['entries']],
                acls=dict((a, [list(l) for l in ls]) for a, ls in c['acls'].items()), tsets=dict((t, list(d)) for t, d in c['tsets'].items()),
                props=dict((p, [(list(k), list(v)) for k, v in subs]) for p, subs in c['props'].items()))


def get_attr(e, key):
    for k, v in e['attrs']:
        if k == key:
            return v
    return None


def cleanup(c):
    """drop objects no entry references"""
    used_a, used_t, used_p = set(), set(), set()
    for e in c['entries']:
        used_a |= set(get_attr(e, ['match', 'address']) or [])
        used_t |= set(get_attr(e, ['set', 'ikev1', 'transform-set']) or [])
        used_p |= set(get_attr(e, ['set', 'ikev2', 'ipsec-proposal']) or [])
    c['acls'] = dict((a, l) for a, l in c['acls'].items() if a in used_a)
    c['tsets'] = dict((t, d) for t, d in c['tsets'].items() if t in used_t)
    c['props'] = dict((p, s) for p, s in c['props'].items() if p in used_p)


def mutate(rng, tgt):
    d = copy_cfg(tgt)
    edits = []
    for _ in range(rng.choice([0, 1, 1, 2, 2, 3])):
        e = rng.choice(['del_entry', 'add_entry', 'pfs', 'prop_enc', 'prop_int', 'rename_prop', 'rename_ts', 'renumber', 'gap', 'mapname',
                        'lifetime', 'only_second', 'ts_def', 'rename_acl'])
        ents = d['entries']
        if e == 'del_entry' and ents:
            ents.pop(rng.randrange(len(ents)))
        elif e == 'add_entry':
            p = rng.randrange(20, 29)
            acl = 'old-%d' % p
            d['acls'][acl] = [['extended', 'permit', 'ip', 'any4', 'host', '10.8.%d.1' % p]]
            d['tsets'].setdefault('TransX', TS[2].split())
            ents.append(dict(seq=str(50 + p), attrs=[(['match', 'address'], [acl]), (['set', 'peer'], ['10.0.1.%d' % p]), (['set', 'ikev1', 'transform-set'], ['TransX'])]))
        elif e == 'pfs' and ents:
            x = rng.choice(ents)
            x['attrs'] = [(k, v) for k, v in x['attrs'] if k != ['set', 'pfs']]
            if rng.random() < 0.7:
                x['attrs'].append((['set', 'pfs'], [rng.choice(['group2', 'group21'])]))
        elif e == 'lifetime' and ents:
            x = rng.choice(ents)
            x['attrs'] = [(k, v) for k, v in x['attrs'] if k[:3] != ['set', 'security-association', 'lifetime']]
            if rng.random() < 0.6:
                x['attrs'].append((['set', 'security-association', 'lifetime', 'seconds'], ['7200']))
        elif e == 'acl_line' and d['acls']:
            a = rng.choice(sorted(d['acls']))
            d['acls'][a] = [['extended', 'permit', 'ip', 'any4', 'host', '10.7.7.%d' % rng.randrange(9)]] + (d['acls'][a] if rng.random() < 0.5 else [])
        elif e in ('prop_enc', 'prop_int') and d['props']:
            p = rng.choice(sorted(d['props']))
            key = ['protocol', 'esp', 'encryption' if e == 'prop_enc' else 'integrity']
            subs = [(k, v) for k, v in d['props'][p] if k != key]
            if rng.random() < 0.8:
                subs.append((key, rng.sample(ENC if e == 'prop_enc' else INT, 1)))
            d['props'][p] = subs
        elif e == 'rename_prop' and d['props']:
            p = rng.choice(sorted(d['props']))
            new = p + '-DRC-%d' % rng.randrange(2)
            if new not in d['props']:
                d['props'][new] = d['props'].pop(p)
                for x in ents:
                    x['attrs'] = [(k, [new if y == p else y for y in v]) if k == ['set', 'ikev2', 'ipsec-proposal'] else (k, v) for k, v in x['attrs']]
        elif e == 'rename_ts' and d['tsets']:
            t = rng.choice(sorted(d['tsets']))
            new = t + 'b'
            if new not in d['tsets']:
                d['tsets'][new] = d['tsets'].pop(t)
                for x in ents:
                    x['attrs'] = [(k, [new if y == t else y for y in v]) if k == ['set', 'ikev1', 'transform-set'] else (k, v) for k, v in x['attrs']]
        elif e == 'ts_def' and d['tsets']:
            t = rng.choice(sorted(d['tsets']))
            d['tsets'][t] = rng.choice(TS).split()
        elif e == 'rename_acl' and d['acls']:
            a = rng.choice(sorted(d['acls']))
            new = a + '-DRC-0'
            if new not in d['acls']:
                d['acls'][new] = d['acls'].pop(a)
                for x in ents:
                    x['attrs'] = [(k, [new if y == a else y for y in v]) if k == ['match', 'address'] else (k, v) for k, v in x['attrs']]
        elif e == 'renumber' and ents:
            for i, x in enumerate(ents):
                x['seq'] = str(3 * i + 2)
        elif e == 'gap' and ents:
            # free sequence numbers directly followed by a used one
            for i, x in enumerate(ents):
                x['seq'] = str(i + 2)
        elif e == 'only_second' and len(ents) > 1:
            keep = ents[1]
            keep['seq'] = '2'
            d['entries'] = [keep]
        elif e == 'mapname':
            d['map'] = 'vpn-old'
        else:
            continue
        edits.append(e)
    cleanup(d)
    return d, edits


def render(c):
    out = []
    for t, d in c['tsets'].items():
        out.append('crypto ipsec ikev1 transform-set %s %s' % (t, ' '.join(d)))
    for p, subs in c['props'].items():
        out.append('crypto ipsec ikev2 ipsec-proposal %s' % p)
        out += [' %s %s' % (' '.join(k), ' '.join(v)) for k, v in subs]
    for a, ls in c['acls'].items():
        out += ['access-list %s %s' % (a, ' '.join(l)) for l in ls]
    for e in c['entries']:
        out += ['crypto map %s %s %s%s' % (c['map'], e['seq'], ' '.join(k), (' ' + ' '.join(v)) if v else '') for k, v in e['attrs']]
    if c['entries']:
        out.append('crypto map %s interface %s' % (c['map'], c['intf']))
    return '\n'.join(out) + '\n'


def entry_without_peer(lines):
    ents = {}
    for ln in lines:
        w = ln.split()
        if w[:2] == ['crypto', 'map'] and len(w) > 4 and w[3] != 'interface':
            ents.setdefault((w[2], w[3]), []).append(w[4:])
    return any(not any(a[:2] == ['set', 'peer'] or a[:2] == ['ipsec-isakmp', 'dynamic'] for a in attrs) for attrs in ents.values())


def cw(l):
    return C.clist([S(x) for x in l])


def c_vdev(c):
    return ('{| vd_acls := %s; vd_tsets := %s; vd_props := %s; vd_entries := %s; vd_bind := %s; vd_mode := VTop |}' % (
        C.clist(['(%s, %s)' % (S(a), C.clist([cw(l) for l in ls])) for a, ls in c['acls'].items()]),
        C.clist(['(%s, %s)' % (S(t), cw(d)) for t, d in c['tsets'].items()]),
        C.clist(['(%s, %s)' % (S(p), C.clist(['(%s, %s)' % (cw(k), cw(v)) for k, v in subs])) for p, subs in c['props'].items()]),
        C.clist(['{| e_map := %s; e_seq := %s; e_attrs := %s |}' % (S(c['map']), S(e['seq']), C.clist(['(%s, %s)' % (cw(k), cw(v)) for k, v in e['attrs']]))
                 for e in c['entries']]),
        C.clist(['(%s, %s)' % (S(c['map']), S(c['intf']))] if c['entries'] else [])))


def script_words(out):
    return [ln.split() for ln in out.split('\n') if ln.strip()]


def c_case(dev, tgt, cmds):
    return '{| vc_dev := %s; vc_tgt := %s; vc_cmds := %s |}' % (c_vdev(dev), c_vdev(tgt), C.clist([cw(w) for w in cmds]))


IMPORTS = ('From Coq Require Import List String.\nFrom NA Require Import Robust.GoStr Cisco.Vpn.\nImport ListNotations.\nOpen Scope string_scope.\n')


def family(ctx, n, resume=0):
    """Runs n generated crypto configurations.  Returns dict(conv=[...], refused=[...], resume=[...], breaks=[...], stats)
    where each failure is dict(what, replay)."""
    rng = ctx.rng
    cases = []
    for _ in range(n):
        t = gen_target(rng)
        d, e = mutate(rng, t)
        cases.append(dict(tgt=t, dev=d, edits=e))
    # the scenario of seed-like gaps: the device has only the second entry under seq 2
    jobs = [dict(model='ASA', device=HEADER + render(c['dev']), netspoc=render(c['tgt'])) for c in cases]
    res = drcrun.run_many(ctx, jobs)
    out = dict(conv=[], refused=[], resume=[], breaks=[], stats=dict(cases=n, with_commands=0, resumed=0))
    items, meta = [], []
    for c, job, r in zip(cases, jobs, res):
        rep = dict(model='ASA', command='drc -q device code/router', files=dict(device=job['device'], netspoc=job['netspoc']), edits=c['edits'],
                   stdout=r['out'], stderr=r['err'][-400:], rc=r['rc'])
        if r['panic'] or r['rc'] not in (0, 1):
            out['conv'].append(dict(what='ASA crypto: drc crashes', replay=rep))
            continue
        if r['rc'] != 0:
            out['breaks'].append(dict(correspondence='generated ASA crypto configuration rejected by drc', case=rep))
            continue
        c['cmds'] = script_words(r['out'])
        c['rep'] = rep
        items.append(c_case(c['dev'], c['tgt'], c['cmds']))
        meta.append(c)
    if not items:
        return out
    text = IMPORTS + 'Definition V := Eval vm_compute in map (fun c => (vjudge c, vequiv (vc_dev c) (vc_tgt c))) %s.\nPrint V.\n' % C.clist(items)
    verd = parse_coq_term(ctx.coq_eval('vpn_main', text))
    second, smeta = [], []
    for c, v in zip(meta, verd):
        pos, why, conv, rendered, already = v
        conv, already = conv == 'true', already == 'true'
        c['ok'] = False
        if c['cmds']:
            out['stats']['with_commands'] += 1
        if pos:
            kind = 'breaks' if why == 6 else 'refused'
            if why == 6:
                out['breaks'].append(dict(correspondence='ASA crypto: command %d not understood by Cisco/Vpn.v' % pos, case=c['rep']))
            else:
                out['refused'].append(dict(what='ASA crypto: command %d is refused by the device: %s' % (pos, WHY.get(why, why)),
                                           replay=dict(c['rep'], refused_command=pos, reason=WHY.get(why, why))))
            continue
        if not conv:
            out['conv'].append(dict(what='ASA crypto: after the commands the crypto map is not equivalent to the target',
                                    replay=dict(c['rep'], final_state=rendered)))
            continue
        if not c['cmds'] and not already:
            out['conv'].append(dict(what='ASA crypto: no change reported although the crypto map differs from the target', replay=c['rep']))
            continue
        c['ok'] = True
        second.append(dict(model='ASA', device=HEADER + '\n'.join(rendered) + '\n', netspoc=render(c['tgt'])))
        smeta.append(c)
    for c, job, r in zip(smeta, second, drcrun.run_many(ctx, second)):
        if r['rc'] != 0 or r['out'].strip():
            out['conv'].append(dict(what='ASA crypto: the second compare on the resulting configuration reports changes again',
                                    replay=dict(c['rep'], second_device=job['device'], second_stdout=r['out'], second_stderr=r['err'][-300:])))
    # resumption after every cut
    sel = [c for c in meta if c.get('ok') and len(c['cmds']) > 1][:resume]
    if sel:
        text = IMPORTS + 'Definition V := Eval vm_compute in map vprefix_states %s.\nPrint V.\n' % C.clist([c_case(c['dev'], c['tgt'], c['cmds']) for c in sel])
        pref = parse_coq_term(ctx.coq_eval('vpn_prefix', text))
        jobs3, where = [], []
        for c, states in zip(sel, pref):
            for k, lines in enumerate(states):
                jobs3.append(dict(model='ASA', device=HEADER + '\n'.join(lines) + '\n', netspoc=render(c['tgt'])))
                where.append((c, k + 1, lines))
        res3 = drcrun.run_many(ctx, jobs3)
        items3 = []
        for (c, k, lines), r in zip(where, res3):
            cmds2 = script_words(r['out']) if r['rc'] == 0 else []
            items3.append('(%s, %d, %s)' % (c_case(c['dev'], c['tgt'], c['cmds']), k, C.clist([cw(w) for w in cmds2])))
        text = (IMPORTS + 'Definition resume (x : vcase * nat * list words) :=\n  match x with (c, k, cmds2) =>\n'
                '    vjudge {| vc_dev := top (vprefix (vc_dev c) (vc_cmds c) k); vc_tgt := vc_tgt c; vc_cmds := cmds2 |} end.\n'
                'Definition V := Eval vm_compute in map resume %s.\nPrint V.\n' % C.clist(items3))
        verd3 = parse_coq_term(ctx.coq_eval('vpn_resume', text))
        third, tmeta = [], []
        for (c, k, lines), r, v in zip(where, res3, verd3):
            out['stats']['resumed'] += 1
            pos, why, conv, rendered = v
            rep = dict(c['rep'], cut_after=k, state='\n'.join(lines), resumed_script=r['out'], resumed_stderr=r['err'][-300:])
            if r['rc'] != 0:
                # known finding F-C10-1: the cut left a crypto map entry without its peer
                nopeer = 'Missing peer or dynamic in crypto map' in r['err'] and entry_without_peer(lines)
                out['resume'].append(dict(what='ASA crypto: cut after %d commands: the next run is rejected (%s)' % (k, r['err'].strip().split('\n')[-1][:80]),
                                          replay=rep, finding='F-C10-1' if nopeer else None))
            elif pos and why != 6:
                out['resume'].append(dict(what='ASA crypto: cut after %d commands: command %d of the resumed run is refused: %s' % (k, pos, WHY.get(why, why)), replay=rep))
            elif pos:
                out['breaks'].append(dict(correspondence='ASA crypto (resume): command not understood by Cisco/Vpn.v', case=rep))
            elif conv != 'true':
                out['resume'].append(dict(what='ASA crypto: cut after %d commands: the resumed run does not reach the target' % k, replay=dict(rep, final_state=rendered)))
            else:
                third.append(dict(model='ASA', device=HEADER + '\n'.join(rendered) + '\n', netspoc=render(c['tgt'])))
                tmeta.append((k, rep))
        for (k, rep), job, r in zip(tmeta, third, drcrun.run_many(ctx, third)):
            if r['rc'] != 0 or r['out'].strip():
                out['resume'].append(dict(what='ASA crypto: cut after %d commands: third compare still reports changes' % k,
                                          replay=dict(rep, third_device=job['device'], third_compare=r['out'])))
    return out
