"""Minimised inputs of the defects found for C20 (and the guards of the model):
run first by every tier, through drc and — for ASA / IOS texts — through the
model correspondence."""
INFO = '{"model": "%s", "name_list": ["router"], "ip_list": ["10.1.13.33"]}'
ASA_IF = 'interface Ethernet0/0\n nameif outside\n'
T12 = ' '.join('T%d' % i for i in range(12))
T11 = ' '.join('T%d' % i for i in range(11))
TS = lambda n: ''.join('crypto ipsec ikev1 transform-set T%d esp-3des esp-md5-hmac\n' % i for i in range(n))

PAN = ('<?xml version="1.0"?>\n<config><devices><entry><vsys><entry name="vsys1"><rulebase><security><rules>\n'
       '<entry name="r1"><action>allow</action><from><member>any</member></from><to><member>any</member></to><source><member>%s</member></source>'
       '<destination><member>any</member></destination><service><member>any</member></service><application><member>any</member></application></entry>\n'
       '</rules></security></rulebase>\n<address-group><entry name="g1"><static><member>%s</member></static></entry>%s</address-group>\n'
       '</entry></vsys></entry></devices></config>\n')
PANS = ('<?xml version="1.0"?>\n<config><devices><entry><vsys><entry name="vsys1"><rulebase><security><rules>\n'
        '<entry name="r1"><action>allow</action><from><member>any</member></from><to><member>any</member></to><source><member>any</member></source>'
        '<destination><member>any</member></destination><service><member>sg1</member></service><application><member>any</member></application></entry>\n'
        '</rules></security></rulebase>\n<service-group><entry name="sg1"><members><member>sg1</member></members></entry></service-group>\n'
        '</entry></vsys></entry></devices></config>\n')

def pan2(members, groups='', svc='any', sgroups=''):
    """a vsys with one rule whose source has the given members; address-groups / service-groups as given"""
    return ('<?xml version="1.0"?>\n<config><devices><entry name="localhost.localdomain"><vsys><entry name="vsys1"><rulebase><security><rules>\n'
            '<entry name="r1"><action>allow</action><from><member>z1</member></from><to><member>z2</member></to><source>%s</source>'
            '<destination><member>any</member></destination><service><member>%s</member></service><application><member>any</member></application>'
            '<rule-type>interzone</rule-type></entry>\n</rules></security></rulebase>\n'
            '<address><entry name="IP_10.1.1.10"><ip-netmask>10.1.1.10/32</ip-netmask></entry><entry name="IP_10.1.1.20"><ip-netmask>10.1.1.20/32</ip-netmask></entry>'
            '<entry name="IP_10.1.1.30"><ip-netmask>10.1.1.30/32</ip-netmask></entry></address>\n'
            '<address-group>%s</address-group>\n<service><entry name="tcp 80"><protocol><tcp><port>80</port></tcp></protocol></entry></service>\n'
            '<service-group>%s</service-group>\n</entry></vsys></entry></devices></config>\n'
            % (''.join('<member>%s</member>' % m for m in members), svc, groups, sgroups))


G0 = '<entry name="g0"><static><member>IP_10.1.1.10</member><member>IP_10.1.1.20</member></static></entry>'
SG0 = '<entry name="sg0"><members><member>tcp 80</member></members></entry>'

NRULE = ('{"resource_type":"Rule","id":"r1","scope":["/infra/tier-0s/v1"],"direction":"OUT","ip_protocol":"IPV4","sequence_number":20,"action":"ALLOW",'
         '"source_groups":["/infra/domains/default/groups/Netspoc-g0"],"destination_groups":["10.2.1.10"],"services":["ANY"]}')

CASES = [
    # (name, model, device, netspoc, raw)
    ('acl-ends-after-permit', 'ASA', 'access-list a extended permit\n', '', None),
    ('acl-ends-after-object-group', 'ASA', 'access-list a extended permit ip object-group\n', '', None),
    ('acl-ends-after-host', 'ASA', 'access-list a extended permit ip host\n', '', None),
    ('acl-ends-after-object', 'ASA', 'access-list a extended permit object\n', '', None),
    ('acl-ends-after-any-host', 'ASA', 'access-list a extended permit tcp any4 host\n', '', None),
    ('acl-ends-after-range', 'ASA', 'access-list a extended permit tcp any4 any4 range\n', '', None),
    ('acl-ends-after-log', 'ASA', 'access-list a extended permit ip any4 any4 log\n', '', None),
    ('acl-five-groups', 'ASA', ASA_IF + ''.join('object-group network g%d\n network-object host 10.0.0.%d\n' % (i, i) for i in range(5)) +
     'access-list a extended permit tcp object-group g0 object-group g1 object-group g2 object-group g3 object-group g4\n'
     'access-group a in interface outside\n', '', None),
    ('acl-netspoc-incomplete', 'ASA', ASA_IF, 'access-list a extended permit ip object-group\naccess-group a in interface outside\n', None),
    ('ios-acl-object-group', 'IOS', 'object-group network g1\n host 10.0.1.1\nip access-list extended E1\n permit ip object-group g1 any\n permit ip any object-group g1\n'
     'interface Ethernet1\n ip access-group E1 in\n', 'ip access-list extended E1\n permit ip any host 10.0.0.1\ninterface Ethernet1\n ip access-group E1 in\n', None),
    ('ios-acl-literal-ref', 'IOS', 'ip access-list extended E1\n permit ip $REF object-group g1\ninterface Ethernet1\n ip access-group E1 in\n', '', None),
    ('ios-acl-seq-only', 'IOS', 'ip access-list extended E1\n 10 permit\n 20 remark\n permit\ninterface Ethernet1\n ip access-group E1 in\n', '', None),
    ('bad-indent-after-ignored-sub', 'ASA', 'interface Ethernet0/0\n  unknown-sub x\n nameif outside\n', '', None),
    ('bad-indent-after-known-sub', 'ASA', 'interface Ethernet0/0\n  nameif outside\n shutdown\n', '', None),
    ('aaa-host-without-address', 'ASA', 'aaa-server S protocol ldap\naaa-server S host\n', '', None),
    ('aaa-doubled-blank', 'ASA', 'aaa-server S protocol ldap\naaa-server S  host 1.1.1.1\n', '', None),
    ('aaa-if-only', 'ASA', 'aaa-server S protocol ldap\naaa-server S (inside)\naaa-server S (inside) host\n', '', None),
    ('aaa-different-maps', 'ASA', 'aaa-server S protocol ldap\naaa-server S host 1\n ldap-attribute-map A\naaa-server S host 2\n ldap-attribute-map B\n'
     'ldap attribute-map A\nldap attribute-map B\n', '', None),
    ('route-if-only', 'ASA', 'route outside\n', '', None),
    ('route-netspoc-if-only', 'ASA', ASA_IF + 'route outside 10.0.0.0 255.0.0.0 1.1.1.1\n', 'route outside\n', None),
    ('ipv6-route-without-prefix', 'ASA', 'ipv6 route outside 1::1\n', 'ipv6 route outside 1::/64 1::1\n', None),
    ('ios-route-vrf-only', 'IOS', 'ip route vrf\n', 'ip route 10.0.0.0 255.0.0.0 1.1.1.1\n', None),
    ('ios-route-ip-only', 'IOS', 'ip route 10.0.0.0\n', 'ip route 10.0.0.0 255.0.0.0 1.1.1.1\n', None),
    ('ios-route-vrf-name-only', 'IOS', 'ip route vrf X\nip route vrf X 10.0.0.0\n', 'ip route vrf X 10.0.0.0 255.0.0.0 1.1.1.1\n', None),
    ('route-six-words', 'ASA', ASA_IF + 'route outside 10.0.0.0 255.0.0.0 1.1.1.1 5\nroute outside 10.1.0.0 255.255.0.0  1.1.1.1\n', '', None),
    ('ios-acl-line-twice-moved', 'IOS', 'ip access-list extended test\n permit tcp any host 10.3.4.3\n permit tcp any host 10.3.4.4\n deny ip host 10.1.2.3 any\ninterface Ethernet1\n ip access-group test in\n',
     'ip access-list extended test\n deny ip host 10.1.2.3 any\n deny ip host 10.1.2.3 any\n permit tcp any host 10.3.4.3\n permit tcp any host 10.3.4.4\ninterface Ethernet1\n ip access-group test in\n', None),
    ('twelve-transform-sets', 'ASA', ASA_IF + TS(12) + 'crypto map cm 1 set peer 1.1.1.1\ncrypto map cm 1 set ikev1 transform-set ' + T12 + '\ncrypto map cm interface outside\n', '', None),
    ('eleven-transform-sets', 'ASA', ASA_IF + TS(11) + 'crypto map cm 1 set peer 1.1.1.1\ncrypto map cm 1 set ikev1 transform-set ' + T11 + '\ncrypto map cm interface outside\n', '', None),
    ('transform-set-in-peer-line', 'ASA', ASA_IF + TS(1) + 'crypto map cm 1 set peer x set ikev1 transform-set T0\ncrypto map cm interface outside\n', '', None),
    ('incomplete-string', 'ASA', 'ldap attribute-map M\n map-value memberOf "CN=x y\n', '', None),
    ('string-one-quote', 'ASA', 'ldap attribute-map M\n map-value memberOf " G\ngroup-policy G internal\n', '', None),
    ('unknown-reference', 'ASA', 'access-group a in interface outside\n', '', None),
    ('default-objects', 'ASA', 'tunnel-group-map default-group DefaultL2LGroup\ntunnel-group x general-attributes\n default-group-policy DfltGrpPolicy\ntunnel-group x type ipsec-l2l\n', '', None),
    ('crypto-map-empty-name', 'ASA', 'crypto map  10 set nat-t-disable\n', '', None),
    ('raw-unexpected', 'ASA', ASA_IF, '', 'foo bar\n'),
    ('raw-append-no-permit', 'ASA', ASA_IF, 'access-list a extended deny ip any4 any4\naccess-group a in interface outside\n',
     'access-list a extended permit ip host 1.1.1.1 any4\n[APPEND]\naccess-list a extended permit ip host 1.1.1.2 any4\naccess-group a in interface outside\n'),
    ('ios-banner', 'IOS', 'banner motd ^C\ninterface X\n ip address 1.1.1.1 255.0.0.0\n^C\ninterface Ethernet1\n ip address 10.0.6.1 255.255.255.0\nbanner exec  x y\n', '', None),
    ('seq-overflow', 'ASA', 'crypto map cm 18446744073709551615 set nat-t-disable\ncrypto map cm 18446744073709551616 set nat-t-disable\n'
     'crypto map cm 9223372036854775808 set nat-t-disable\n', '', None),
    ('tabs', 'ASA', 'access-list\ta extended permit ip any4 any4\naccess-list a extended\tpermit ip any4 any4\ninterface Ethernet0/0\n\tnameif outside\n nameif\tinside\n', '', None),
    ('linux-proto-last', 'Linux', 'ip route add 10.0.0.0/24 dev eth0 proto\n', 'ip route add 10.0.0.0/24 via 10.1.1.1\n', None),
    # F-C20-11 .. 13 (found by reading, outside the enumerated family): JSON null in an NSX list, a PAN-OS group that is member
    # of itself (stack overflow), PAN-OS raw file merged into a config with empty <devices>
    ('nsx-null-rule', 'NSX', '{"policies":[{"id":"Netspoc-v1","rules":[null]}]}', '{"policies":[{"id":"Netspoc-v1","rules":[null]}]}', None),
    ('nsx-null-policy', 'NSX', '{"policies":[null]}', '', None),
    ('nsx-null-group', 'NSX', '', '{"groups":[null]}', None),
    ('nsx-null-expression', 'NSX', '{"groups":[{"id":"Netspoc-g0","expression":[null]}]}', '', None),
    ('nsx-null-service', 'NSX', '', '{"services":[null]}', None),
    ('nsx-null-service-entry', 'NSX', '{"services":[{"id":"Netspoc-s","service_entries":[null]}]}', '', None),
    ('nsx-null-in-raw', 'NSX', '', '{"policies":[]}', '{"policies":[{"id":"Netspoc-v1","rules":[null]}]}'),
    ('nsx-undefined-group', 'NSX', '{"groups":[{"id":"Netspoc-g0","expression":[{"id":"id","resource_type":"IPAddressExpression","ip_addresses":["10.1.1.10","10.1.1.20"]}]}],'
     '"policies":[{"id":"Netspoc-v1","rules":[' + NRULE + ']}]}', '{"groups":null,"policies":[{"id":"Netspoc-v1","rules":[' + NRULE + ']}]}', None),
    ('nsx-group-without-address', 'NSX', '', '{"groups":[{"id":"Netspoc-g0","expression":[{"id":"id","resource_type":"IPAddressExpression","ip_addresses":null}]}],'
     '"policies":[{"id":"Netspoc-v1","rules":[' + NRULE + ']}]}', None),
    ('panos-group-member-of-itself', 'PAN-OS', PAN % ('g1', 'g1', ''), PAN % ('g1', 'g1', ''), None),
    ('panos-groups-in-a-circle', 'PAN-OS', '', PAN % ('g1', 'g2', '<entry name="g2"><static><member>g1</member></static></entry>'), None),
    ('panos-service-group-member-of-itself', 'PAN-OS', '', PANS, None),
    ('panos-empty-devices-with-raw', 'PAN-OS', '<?xml version="1.0"?>\n<config><devices></devices></config>\n',
     '<?xml version="1.0"?>\n<config><devices></devices></config>\n', PAN % ('g1', '10.1.1.1', '<entry name="h"><static><member>10.1.1.1</member></static></entry>')),
    # a name that is a group on one side and undefined (or a plain address) on the other, in a list of several members
    ('panos-group-undefined-in-netspoc', 'PAN-OS', pan2(['g0', 'IP_10.1.1.30'], G0), pan2(['g0', 'IP_10.1.1.30']), None),
    ('panos-group-undefined-on-device', 'PAN-OS', pan2(['g0', 'IP_10.1.1.30']), pan2(['g0', 'IP_10.1.1.30'], G0), None),
    ('panos-group-name-is-address-in-netspoc', 'PAN-OS', pan2(['IP_10.1.1.10', 'IP_10.1.1.30'], '<entry name="IP_10.1.1.10"><static><member>IP_10.1.1.20</member></static></entry>'),
     pan2(['IP_10.1.1.10', 'IP_10.1.1.30']), None),
    ('panos-single-group-undefined-in-netspoc', 'PAN-OS', pan2(['g0'], G0), pan2(['g0']), None),
    ('panos-service-group-undefined-in-netspoc', 'PAN-OS', pan2(['any'], '', 'sg0', SG0), pan2(['any'], '', 'sg0'), None),
    ('panos-service-group-undefined-on-device', 'PAN-OS', pan2(['any'], '', 'sg0'), pan2(['any'], '', 'sg0', SG0), None),
    ('info-null', 'INFO', 'null', '', None),
    ('info-array', 'INFO', '[]', '', None),
    ('info-empty-object', 'INFO', '{}', '', None),
    ('info-model-number', 'INFO', '{"model": 5}', '', None),
]


def drc_cases():
    out = []
    for name, model, device, netspoc, raw in CASES:
        if model == 'INFO':
            files = {'device': '', 'code/router': '', 'code/router.info': device}
            model = 'ASA'
        else:
            files = {'device': device, 'code/router': netspoc, 'code/router.info': INFO % model}
            if raw is not None:
                files['code/router.raw'] = raw
        out.append(dict(base='corpus: ' + name, model=model, file='device', label='corpus', files=files))
    return out


def parse_cases():
    out = []
    for name, model, device, netspoc, raw in CASES:
        if model in ('ASA', 'IOS'):
            for f, t in (('router', device), ('router', netspoc), ('router.raw', raw)):
                if t:
                    out.append((model, f, t))
    return out
