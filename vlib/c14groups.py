"""C14, ASA with object-groups: the premise of the stepwise theorems (Cisco/StepSafe.v, AsaStepSafe.v) on
whole configurations — per ACL the new lines are inserted first, the old lines are deleted afterwards and
bottom-up — is checked on every script the implementation prints for generated configurations with
object-groups (created, edited in place, replaced, shared).  When the order is not kept, a group-aware
first-match simulation (Python; a search tool, not a proof) looks for a packet on which old and new ACL
agree and that gets another verdict after some command."""
import random
from vlib import cisco as K
from vlib import ciscocheck as CC

NPK = 24


def order_problem(script):
    """-> None or a text: per ACL inserts before deletes, deletes with strictly decreasing line numbers (moves are joined lines)"""
    last_del, seen_del = {}, set()
    for k, c in enumerate(script):
        if c[0] == 'acladd' and c[2] is not None:
            if c[1] in seen_del:
                return 'command %d inserts a line into %s after a line of this ACL was deleted' % (k + 1, c[1]), c[1]
        elif c[0] == 'acldel' and c[2] is not None:
            seen_del.add(c[1])
            if c[1] in last_del and c[2] >= last_del[c[1]]:
                return 'command %d deletes line %d of %s after line %d: not bottom-up' % (k + 1, c[2], c[1], last_del[c[1]]), c[1]
            last_del[c[1]] = c[2]
    return None


def pset(key, p=0.3):
    h = random.Random(' '.join(key))
    return set(x for x in range(NPK) if h.random() < p)


def line_match(line, groups):
    """packets matched by an ASA line ['extended', action, proto, src..., dst..., ...]: a template (group names
    replaced by *) intersected, per referenced group, with the union of the sets of its members"""
    body = list(K.body_key(line, False))[2:]
    refs_ = K.refs(line)
    templ = [('*' if (i > 0 and body[i - 1] == 'object-group') else w) for i, w in enumerate(body)]
    if templ[:1] == ['ip'] and templ[-2:] == ['any4', 'any4']:
        s = set(range(NPK))
    else:
        s = pset(templ, 0.55 if refs_ else 0.3)
    for g in refs_:
        mem = set()
        for m in groups.get(g, (None, []))[1]:
            mem |= pset(list(m), 0.35)
        s &= mem
    return s


def verdict(lines, groups, p):
    for l in lines:
        if p in line_match(l, groups):
            return l[1] == 'permit'
    return False


class Sim:
    def __init__(self, cfg):
        self.acls = {a: [list(l) for l in ls] for a, ls in cfg['acls'].items()}
        self.groups = {g: (list(v[0]), [list(m) for m in v[1]]) for g, v in cfg['groups'].items()}
        self.binds = dict(cfg['binds'])
        self.mode = None

    def step(self, c):
        k = c[0]
        if k == 'join':
            self.step(c[1]); self.step(c[2])
        elif k == 'acladd':
            ls = self.acls.setdefault(c[1], [])
            ls.insert(len(ls) if c[2] is None else c[2] - 1, list(c[3]))
            self.mode = None
        elif k == 'acldel':
            ls = self.acls.get(c[1], [])
            if c[2] is not None and 0 < c[2] <= len(ls):
                ls.pop(c[2] - 1)
            elif list(c[3]) in ls:
                ls.remove(list(c[3]))
            if not ls:
                self.acls.pop(c[1], None)
            self.mode = None
        elif k == 'aclclear':
            self.acls.pop(c[1], None)
        elif k == 'group':
            self.groups.setdefault(c[2], (list(c[1]), []))
            self.mode = c[2]
        elif k == 'nogroup':
            self.groups.pop(c[2], None)
            self.mode = None
        elif k == 'sub' and self.mode in self.groups:
            mem = self.groups[self.mode][1]
            if c[1]:
                if list(c[2]) in mem:
                    mem.remove(list(c[2]))
            else:
                mem.append(list(c[2]))
        elif k == 'bind':
            if c[1]:
                self.binds.pop(tuple(c[3]), None)
            else:
                self.binds[tuple(c[3])] = c[2]
            self.mode = None
        else:
            self.mode = None


def unsafe_step(case, acl):
    """-> None or (command index, location, packet); only the locations the ACL with the broken order is bound to"""
    dev, tgt, script = case['dev'], case['tgt'], case['script']
    locs = [loc for loc in tgt['binds'] if loc in dev['binds'] and dev['binds'][loc] == acl]
    old = {loc: [verdict(dev['acls'].get(dev['binds'][loc], []), dev['groups'], p) for p in range(NPK)] for loc in locs}
    new = {loc: [verdict(tgt['acls'].get(tgt['binds'][loc], []), tgt['groups'], p) for p in range(NPK)] for loc in locs}
    sim = Sim(dev)
    for k, c in enumerate(script):
        sim.step(c)
        for loc in locs:
            acl = sim.binds.get(loc)
            lines = sim.acls.get(acl, []) if acl else []
            for p in range(NPK):
                if old[loc][p] == new[loc][p] and verdict(lines, sim.groups, p) != old[loc][p]:
                    return k + 1, loc, p
    return None


def check(ctx, n):
    """-> (number of scripts, failing list, breaks list)"""
    failing, breaks = [], []
    cases = CC.run_family(ctx, False, n, dict(packets=False, groups=True, unmanaged=False))
    nscripts = 0
    for c in cases:
        if c['run']['rc'] != 0 or not c['script']:
            continue
        nscripts += 1
        prob = order_problem(c['script'])
        if prob is None:
            continue
        prob, acl = prob
        rep = CC.replay_of('C14', c, dict(order=prob))
        hit = unsafe_step(c, acl)
        if hit:
            k, loc, p = hit
            failing.append(dict(what='ASA with object-groups: %s; after command %d the ACL at %s gives abstract packet %d, on which old and new ACL agree, '
                                     'another verdict (group-aware first-match simulation)' % (prob, k, ' '.join(loc), p),
                                replay=dict(rep, unsafe_after_command=k, location=list(loc), packet=p), finding=None, key='groups-order'))
        else:
            breaks.append(dict(correspondence='ASA with object-groups: ' + prob + ' (premise of the stepwise theorems: insert top-down, then delete bottom-up)',
                               case=rep))
    return nscripts, failing, breaks
