"""Runs members of the C20 family through the freshly built binaries and
classifies the outcome: ok (exit 0/1, diagnostic on rejection) | panic | hang | badexit."""
import os, re, shutil, subprocess, threading
from concurrent.futures import ThreadPoolExecutor

FRAME = re.compile(r'github\.com/hknutzen/Netspoc-Approve/go/(pkg|cmd)/([\w\-/]+)\.([\w\(\)\*\.]+?)(?:\.func\d+)*\(')
_tl = threading.local()


def panic_site(err):
    """First frame of the repository below the panic, as package.function."""
    started = False
    for ln in err.split('\n'):
        if ln.startswith('goroutine '):
            started = True
            continue
        if not started:
            continue
        m = FRAME.match(ln)
        if m and 'errlog.HandleAbort' not in ln:
            return '%s.%s' % (m.group(2).split('/')[-1], m.group(3).replace('(*', '').replace(')', ''))
    return 'unknown'


def panic_message(err):
    for ln in err.split('\n'):
        if ln.startswith('panic: '):
            return ln[7:].replace(' [recovered]', '')
    return ''


def classify(rc, err):
    if rc == 'hang':
        return 'hang', 'timeout', ''
    if 'goroutine ' in err and 'panic' in err:
        msg = panic_message(err)
        kind = 'runtime-panic' if msg.startswith('runtime error') else 'deliberate-panic'
        return kind, panic_site(err), msg
    if rc not in (0, 1):
        return 'badexit', 'exit %s' % rc, err[-200:]
    if rc == 1 and not err.strip():
        return 'silent-rejection', 'exit 1 without message', ''
    return 'ok', '', ''


def run_case(ctx, case, idx, timeout=60):
    """drc FILE1 FILE2 on the files of the case."""
    d = os.path.join(ctx.work, 'f%d' % idx)
    for rel, text in case['files'].items():
        p = os.path.join(d, rel)
        os.makedirs(os.path.dirname(p), exist_ok=True)
        with open(p, 'w', encoding='utf-8', errors='surrogateescape') as fh:
            fh.write(text)
    env = dict(os.environ, HOME=d)
    env.pop('SIMULATE_ROUTER', None)
    try:
        p = subprocess.run([os.path.join(ctx.bin, 'drc'), 'device', 'code/router'], cwd=d, env=env,
                           stdout=subprocess.PIPE, stderr=subprocess.PIPE, timeout=timeout)
        rc, err = p.returncode, p.stderr.decode('utf-8', 'replace')
    except subprocess.TimeoutExpired:
        rc, err = 'hang', ''
    shutil.rmtree(d, ignore_errors=True)
    return (rc,) + classify(rc, err) + (err[:600],)


def run_family(ctx, cases, workers=16):
    with ThreadPoolExecutor(workers) as ex:
        res = list(ex.map(lambda ic: run_case(ctx, ic[1], ic[0]), enumerate(cases)))
    # a run that did not finish while 16 ran in parallel is repeated alone with a long limit before it counts as a hang
    for i, r in enumerate(res):
        if r[0] == 'hang':
            res[i] = run_case(ctx, cases[i], i, timeout=600)
    return res
