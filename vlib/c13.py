"""C13 — missing-approve never forgets a device that needs approve.

Proof: coq/theories/Status/{Model,Proofs}.v, Properties/C13.v.
Tie: histories executed against the real status writers (status.SetApprove,
status.SetCompare, status.Read through the harness) and the real
`missing-approve` binary in a temporary basedir with TEST_TIME; after every
event the printed device list and the status slots are compared with the model
(correspondence) and the property itself is evaluated on the printed list
(oracle), both inside Coq."""
import bz2, json, os, shutil, subprocess, calendar, time
from concurrent.futures import ThreadPoolExecutor
from vlib import common as C

BASE = calendar.timegm((2024, 1, 1, 0, 0, 0))
FILES = ['code/%s', 'code/%s.raw', 'code/ipv6/%s', 'code/ipv6/%s.raw',
         'code/ipv4/%s', 'code/ipv4/%s.raw']


def dname(d):
    return 'r%d' % d


def fmt_time(t):
    return time.strftime('%Y-%b-%d %H:%M:%S', time.gmtime(BASE + t))


def data_of(n):
    return b'' if n == 0 else ('code %d\n' % n).encode()


# ---------------- generator ----------------
def gen_content(rng, ndev):
    out = []
    for d in range(ndev):
        style = rng.random()
        c = [None] * 6
        if style < 0.08:
            pass                                   # device absent from this policy
        elif style < 0.70:
            c[0] = rng.choice([1, 1, 2, 3, 0])
            if rng.random() < 0.3:
                c[1] = rng.choice([1, 2, 0])
            if rng.random() < 0.2:
                c[2] = rng.choice([1, 2])
        elif style < 0.85:
            c[2] = rng.choice([1, 2, 0])
            if rng.random() < 0.3:
                c[3] = rng.choice([1, 2])
        else:
            c[4] = rng.choice([1, 2])
            c[2] = rng.choice([None, 1, 2])
            if rng.random() < 0.3:
                c[5] = rng.choice([1, 2])
        out.append(c)
    return out


def gen_history(rng, maxlen):
    ndev = rng.choice([1, 1, 2, 3])
    init = gen_content(rng, ndev)
    n = rng.randint(1, maxlen)
    ev, npol, last = [], 1, init
    for _ in range(n):
        gap = rng.choice([0, 0, 0, 1, 5, 60])
        r = rng.random()
        d = rng.randrange(ndev)
        if r < 0.17:
            # same code, slightly changed code, or fresh code
            m = rng.random()
            if m < 0.4:
                c = [list(x) for x in last]
            elif m < 0.7:
                c = [list(x) for x in last]
                dd = rng.randrange(ndev)
                i = rng.randrange(6)
                c[dd][i] = rng.choice([None, 0, 1, 2, 3])
            else:
                c = gen_content(rng, ndev)
            # sometimes go back to an older policy's code
            ev.append(dict(gap=gap, k='new', code=c))
            last = c
            npol += 1
        elif r < 0.34:
            ev.append(dict(gap=gap, k='aok', d=d))
        elif r < 0.48:
            ev.append(dict(gap=gap, k='afail', d=d))
        elif r < 0.72:
            ev.append(dict(gap=gap, k='cmp', d=d, up=rng.random() < 0.5))
        elif r < 0.76:
            ev.append(dict(gap=gap, k='drift', d=d))
        elif r < 0.84:
            ev.append(dict(gap=gap, k='bzip', p=rng.randint(1, max(1, npol))))
        elif r < 0.92:
            ev.append(dict(gap=gap, k='rm', p=rng.randint(1, max(1, npol))))
        else:
            ev.append(dict(gap=gap, k='dmg', d=d,
                           how=rng.choice(['trunc', 'empty', 'garbage', 'unlink']),
                           at=rng.random()))
    return dict(ndev=ndev, init=init, events=ev)


def corpus():
    a, b = [1, None, None, None, None, None], [2, None, None, None, None, None]
    e = [0, None, None, None, None, None]
    E = lambda k, **kw: dict(gap=0, k=k, **kw)
    return [
        # F-C13-3
        dict(ndev=1, init=[a], events=[E('cmp', d=0, up=True), E('new', code=[b]), E('aok', d=0),
                                        E('afail', d=0), E('new', code=[a])], name='F-C13-3'),
        # F-C13-1
        dict(ndev=1, init=[a], events=[E('aok', d=0), E('afail', d=0)], name='F-C13-1'),
        # F-C13-2
        dict(ndev=1, init=[a], events=[E('aok', d=0), E('new', code=[e]), E('rm', p=1)], name='F-C13-2'),
        # sticky DIFF, then approve, then DIFF again
        dict(ndev=2, init=[a, b], events=[E('cmp', d=0, up=False), E('cmp', d=0, up=False), E('aok', d=0),
                                           E('cmp', d=0, up=False), E('new', code=[a, a]), E('bzip', p=1),
                                           E('cmp', d=1, up=True), E('dmg', d=0, how='trunc', at=0.5)],
             name='sticky-diff'),
        # two compares that find the device up to date, under two policies with different code (manual change in between),
        # then a policy with the first code again: the second compare is the latest conclusive observation
        dict(ndev=1, init=[a], events=[E('cmp', d=0, up=True), E('new', code=[b]), E('drift', d=0), E('cmp', d=0, up=True),
                                        E('new', code=[a])], name='second-uptodate-compare'),
        dict(ndev=2, init=[a, a], events=[E('aok', d=1), E('cmp', d=0, up=True), E('new', code=[b, a]), E('cmp', d=0, up=True),
                                           E('cmp', d=0, up=True), E('bzip', p=1), E('new', code=[a, a])], name='second-uptodate-compare-2'),
    ]


# ---------------- implementation run ----------------
def write_policy(base, p, code):
    pd = os.path.join(base, 'policies', 'p%d' % p)
    os.makedirs(os.path.join(pd, 'code'), exist_ok=True)
    for d, c in enumerate(code):
        for i, v in enumerate(c):
            if v is None:
                continue
            path = os.path.join(pd, FILES[i] % dname(d))
            os.makedirs(os.path.dirname(path), exist_ok=True)
            with open(path, 'wb') as fh:
                fh.write(data_of(v))
    # an info file and a log file, as in a real policy directory
    with open(os.path.join(pd, 'code', 'r0.info'), 'w') as fh:
        fh.write('{"model":"IOS"}\n')
    link = os.path.join(base, 'policies', 'current')
    if os.path.lexists(link):
        os.unlink(link)
    os.symlink('p%d' % p, link)


def run_impl(ctx, idx, h):
    base = os.path.join(ctx.work, 'h%d' % idx)
    os.makedirs(os.path.join(base, 'policies'))
    with open(os.path.join(base, '.netspoc-approve'), 'w') as fh:
        fh.write('basedir = %s\n' % base)
    env = dict(os.environ, HOME=base)
    env.pop('TEST_TIME', None)
    write_policy(base, 1, h['init'])
    st = subprocess.Popen([os.path.join(ctx.bin, 'nah'), 'status'], env=env, text=True,
                          stdin=subprocess.PIPE, stdout=subprocess.PIPE)

    def call(t, what, dev, pol, flag):
        st.stdin.write('%s\t%s\t%s\t%s\t%d\n' % (fmt_time(t), what, dev, pol, flag))
        st.stdin.flush()
        return st.stdout.readline().strip()

    now, npol, removed, obs = 0, 1, set(), []
    try:
        for e in h['events']:
            now += 1 + e['gap']
            k = e['k']
            if k == 'new':
                npol += 1
                write_policy(base, npol, e['code'])
            elif k == 'aok':
                call(now, 'approve', dname(e['d']), 'p%d' % npol, 0)
            elif k == 'afail':
                call(now, 'approve', dname(e['d']), 'p%d' % npol, 1)
            elif k == 'cmp':
                call(now, 'compare', dname(e['d']), 'p%d' % npol, 0 if e['up'] else 1)
            elif k == 'bzip':
                p = e['p']
                if 0 < p < npol and p not in removed:
                    pd = os.path.join(base, 'policies', 'p%d' % p)
                    for root, _, files in os.walk(os.path.join(pd, 'code')):
                        for f in files:
                            if f.endswith('.bz2'):
                                continue
                            fp = os.path.join(root, f)
                            with open(fp, 'rb') as fh:
                                data = fh.read()
                            with open(fp + '.bz2', 'wb') as fh:
                                fh.write(bz2.compress(data))
                            os.unlink(fp)
            elif k == 'rm':
                p = e['p']
                if 0 < p < npol:
                    removed.add(p)
                    shutil.rmtree(os.path.join(base, 'policies', 'p%d' % p), ignore_errors=True)
            elif k == 'dmg':
                sp = os.path.join(base, 'status', dname(e['d']))
                os.makedirs(os.path.dirname(sp), exist_ok=True)
                data = open(sp, 'rb').read() if os.path.exists(sp) else b''
                if e['how'] == 'trunc':
                    data = data[:int(e['at'] * max(0, len(data) - 1))]
                elif e['how'] == 'empty':
                    data = b''
                elif e['how'] == 'garbage':
                    data = b'\x00\xff{{"approve": 17]garbage'
                if e['how'] == 'unlink':
                    if os.path.exists(sp):
                        os.unlink(sp)
                else:
                    with open(sp, 'wb') as fh:
                        fh.write(data)
            # observe
            p = subprocess.run([os.path.join(ctx.bin, 'missing-approve')], env=env,
                               stdout=subprocess.PIPE, stderr=subprocess.PIPE, text=True, timeout=60)
            listed, extra = [], []
            for line in p.stdout.split():
                if line.startswith('r') and line[1:].isdigit():
                    listed.append(int(line[1:]))
                else:
                    extra.append(line)
            slots = []
            for d in range(h['ndev']):
                v = json.loads(call(now, 'read', dname(d), '-', 0))
                slots.append((v['approve'], v['compare']))
            obs.append(dict(listed=sorted(set(listed)), slots=slots, rc=p.returncode,
                            err=p.stderr[-200:], extra=extra, dup=len(listed) != len(set(listed))))
    finally:
        st.stdin.close()
        st.wait()
        shutil.rmtree(base, ignore_errors=True)
    return obs


# ---------------- Coq case file ----------------
def c_content(c):
    return C.clist([C.copt(v, C.cN) for v in c])


def c_event(e):
    k = e['k']
    if k == 'new':
        body = 'NewPolicy %s' % C.clist([c_content(c) for c in e['code']])
    elif k == 'aok':
        body = 'ApproveOk %s' % C.cnat(e['d'])
    elif k == 'afail':
        body = 'ApproveFailed %s' % C.cnat(e['d'])
    elif k == 'cmp':
        body = 'Compare %s %s' % (C.cnat(e['d']), C.cbool(e['up']))
    elif k == 'drift':
        body = 'Drift %s' % C.cnat(e['d'])
    elif k == 'bzip':
        body = 'Bzip %s' % C.cnat(e['p'])
    elif k == 'rm':
        body = 'Remove %s' % C.cnat(e['p'])
    else:
        body = 'Damage %s' % C.cnat(e['d'])
    return '(%s, %s)' % (C.cN(e['gap']), body)


ARES = {'': 0, 'OK': 1, 'WARNINGS': 1, 'FAILED': 2}
CRES = {'': 0, 'UPTODATE': 1, 'DIFF': 2}


def pol_num(s):
    return int(s[1:]) if s.startswith('p') and s[1:].isdigit() else 0


def c_slot(a, table):
    t = a['time'] - BASE if a['time'] else 0
    return '(%s, %s, %s)' % (C.cnat(table.get(a['result'], 9)), C.cnat(pol_num(a['policy'])), C.cZ(t))


def c_obs(o):
    return '(%s, %s)' % (C.clist([C.cnat(d) for d in o['listed']]),
                         C.clist(['(%s, %s)' % (c_slot(a, ARES), c_slot(c, CRES)) for a, c in o['slots']]))


def c_case(h, obs):
    return '(%s, %s, %s, %s)' % (C.clist([c_content(c) for c in h['init']]),
                                 C.clist([c_event(e) for e in h['events']]),
                                 C.cnat(h['ndev']), C.clist([c_obs(o) for o in obs]))


def evaluate(ctx, hs, obss, shard=400):
    verdicts = []
    for s in range(0, len(hs), shard):
        text = ('From Coq Require Import List ZArith NArith.\n'
                'From NA Require Import Status.Model Status.Check.\nImport ListNotations.\n'
                'Definition cases : list case := %s.\n'
                'Definition V := Eval vm_compute in verdicts cases.\nPrint V.\n' %
                C.clist([c_case(h, o) for h, o in zip(hs[s:s + shard], obss[s:s + shard])]))
        out = ctx.coq_eval('cases_c13_%d' % s, text)
        v = C.parse_nat_list(out)
        if len(v) != 2 * len(hs[s:s + shard]):
            raise RuntimeError('verdict count mismatch')
        verdicts += [(v[i], v[i + 1]) for i in range(0, len(v), 2)]
    return verdicts


def shrink(ctx, h, pred):
    """Greedy removal of events while pred (a function history -> bool) holds."""
    ev = list(h['events'])
    changed = True
    while changed:
        changed = False
        for i in range(len(ev)):
            cand = dict(h, events=ev[:i] + ev[i + 1:])
            if cand['events'] and pred(cand):
                ev = cand['events']
                changed = True
                break
    return dict(h, events=ev)


def main(ctx):
    st = ctx.proof_status()
    ok_build = ctx.build_impl() and ctx.build_harness()
    n = 300 if ctx.tier == 'quick' else 6000
    maxlen = 12 if ctx.tier == 'quick' else 20
    hs = corpus() + [gen_history(ctx.rng, maxlen) for _ in range(n)]
    failing, breaks = [], []
    cov = {}
    if ok_build:
        with ThreadPoolExecutor(16) as ex:
            obss = list(ex.map(lambda ih: run_impl(ctx, ih[0], ih[1]), enumerate(hs)))
        # process-level anomalies of missing-approve itself
        for h, obs in zip(hs, obss):
            for k, o in enumerate(obs):
                if o['rc'] != 0 or o['extra'] or o['dup']:
                    failing.append(dict(what='missing-approve exit %s / unexpected output %s after %d events'
                                        % (o['rc'], o['extra'] or o['err'], k + 1),
                                        replay=dict(property='C13', history=h, observed=obs[:k + 1]), finding=None))
                    break
        verdicts = evaluate(ctx, hs, obss)

        def still_fails(which):
            def pred(cand):
                o = run_impl(ctx, 10 ** 6 + ctx.rng.randrange(10 ** 6), cand)
                v = evaluate(ctx, [cand], [o])[0]
                return v[which] != 0
            return pred

        shr = 0
        for h, obs, (cm, om) in zip(hs, obss, verdicts):
            if om:
                hh = shrink(ctx, h, still_fails(1)) if shr < 3 else h
                shr += 1
                oo = run_impl(ctx, 2 * 10 ** 6 + shr, hh)
                failing.append(dict(
                    what='listing contradicts the latest conclusive observation after %d events' % om,
                    replay=dict(property='C13', history=hh, observed=oo, original_history=h,
                                oracle='Status.Check.oracle_one (never forgets / omits established)',
                                how='events are applied with status.SetApprove/SetCompare under TEST_TIME; '
                                    'missing-approve is run after every event; device names r<d>, policies p<k>, '
                                    'file content number n is "code n\\n" (0 = empty file)'),
                    finding=None, key='oracle'))
            elif cm:
                breaks.append(dict(correspondence='Status.Model vs status.go/missing-approve',
                                   first_mismatch_after_events=cm, history=h, observed=obs[:cm]))
        kinds = {}
        for h in hs:
            for e in h['events']:
                kinds[e['k']] = kinds.get(e['k'], 0) + 1
        distinct = len({json.dumps(h, sort_keys=True) for h in hs if len(h['events']) >= 2})
        cov = dict(evaluations=sum(len(h['events']) for h in hs), histories=len(hs),
                   distinct_nontrivial=distinct,
                   rule='random histories (seeded) over 8 event kinds, 1-3 devices, six code files per device, '
                        'plus the corpus of former counterexamples; non-trivial = at least two events; distinct by JSON',
                   traces_validated_against_impl=len(hs), event_kinds=kinds,
                   length_histogram={str(k): sum(1 for h in hs if len(h['events']) == k) for k in range(1, maxlen + 1)},
                   correspondence_mismatches=len(breaks),
                   samples=[hs[0], hs[len(corpus())]])
    cov = C.proof_coverage(ctx, cov)
    assumptions = [
        'status writers are exercised through status.SetApprove/SetCompare/Read (the mapping do-approve outcome -> flags is C09)',
        'bzip2 round-trips file contents (compress/bzip2 of the Go library, bz2 of Python)',
        'events Bzip/Remove only touch policies older than current (quantifier of the property)',
        'a damaged status file is one that json.Unmarshal rejects as a whole (truncated, empty, garbage, removed)',
    ]
    return C.finish(ctx, failing, breaks, cov, assumptions)
