"""Running the freshly built `drc` on generated file sets (pure pipeline:
parse -> merge IPv6/raw -> diff -> print)."""
import json, os, shutil, subprocess
from concurrent.futures import ThreadPoolExecutor


def run_drc(ctx, idx, model, device, netspoc, ipv6=None, raw=None, raw6=None, quiet=True, timeout=60):
    d = os.path.join(ctx.work, 'drc%d' % idx)
    os.makedirs(os.path.join(d, 'code'), exist_ok=True)
    with open(os.path.join(d, 'device'), 'w') as fh:
        fh.write(device)
    with open(os.path.join(d, 'code', 'router'), 'w') as fh:
        fh.write(netspoc)
    with open(os.path.join(d, 'code', 'router.info'), 'w') as fh:
        json.dump(dict(model=model, name_list=['router'], ip_list=['10.1.13.33']), fh)
    if raw is not None:
        with open(os.path.join(d, 'code', 'router.raw'), 'w') as fh:
            fh.write(raw)
    if ipv6 is not None or raw6 is not None:
        os.makedirs(os.path.join(d, 'code', 'ipv6'), exist_ok=True)
        if ipv6 is not None:
            with open(os.path.join(d, 'code', 'ipv6', 'router'), 'w') as fh:
                fh.write(ipv6)
        if raw6 is not None:
            with open(os.path.join(d, 'code', 'ipv6', 'router.raw'), 'w') as fh:
                fh.write(raw6)
    cmd = [os.path.join(ctx.bin, 'drc')] + (['-q'] if quiet else []) + ['device', 'code/router']
    env = dict(os.environ, HOME=d)
    env.pop('SIMULATE_ROUTER', None)
    try:
        p = subprocess.run(cmd, cwd=d, env=env, stdout=subprocess.PIPE, stderr=subprocess.PIPE,
                           timeout=timeout)
        rc, out, err = p.returncode, p.stdout.decode('utf-8', 'replace'), p.stderr.decode('utf-8', 'replace')
    except subprocess.TimeoutExpired:
        rc, out, err = 'hang', '', 'timeout'
    shutil.rmtree(d, ignore_errors=True)
    return dict(rc=rc, out=out, err=err, panic=('panic:' in err or 'goroutine ' in err))


def run_many(ctx, jobs, workers=16):
    """jobs: list of dicts with the keyword arguments of run_drc (without ctx, idx)."""
    with ThreadPoolExecutor(workers) as ex:
        res = list(ex.map(lambda ij: run_drc(ctx, ij[0], **ij[1]), enumerate(jobs)))
    # a run that did not finish under parallel load is repeated alone with a long limit before it counts as a hang
    for i, r in enumerate(res):
        if r['rc'] == 'hang':
            res[i] = run_drc(ctx, i, **dict(jobs[i], timeout=600))
    return res
