"""C18 — raw and IPv6 parts are merged completely and in the documented order.

Proof: coq/theories/Merge/{Model,Proofs}.v, Properties/C18.v.
Tie: `drc DEVICE-WITHOUT-RULES NETSPOC` prints the effective target; the order
of the entries is compared with the Gallina merge functions and judged by the
property predicates of Merge/Check.v."""
import json
from vlib import common as C
from vlib import drcrun

V4 = ['10.1.%d.0 255.255.255.0' % i for i in range(1, 9)]


def gen_parts(rng, allow_v6):
    """entries: (id, permits); raw: (id, permits, append)"""
    n = rng.choice([0, 1, 2, 3, 4, 5])
    acl, nid = [], 1
    shape = rng.random()
    for _ in range(n):
        p = rng.random() < (0.0 if shape < 0.2 else 0.65)
        acl.append((nid, p))
        nid += 1
    if rng.random() < 0.6 or not acl:
        acl.append((nid, False))       # terminating deny
        nid += 1
    v6 = []
    if allow_v6 and rng.random() < 0.4:
        for _ in range(rng.choice([0, 1, 2])):
            v6.append((nid, rng.random() < 0.7))
            nid += 1
        v6.append((nid, False))        # deny ip any6 any6
        nid += 1
    raw = []
    if rng.random() < 0.8:
        for _ in range(rng.choice([0, 1, 2, 3])):
            raw.append((nid, rng.random() < 0.6, False))
            nid += 1
        for _ in range(rng.choice([0, 0, 1, 2, 3])):
            raw.append((nid, rng.random() < 0.4, True))
            nid += 1
    return acl, v6, raw


def asa_line(e, kind):
    i, p = e[0], e[1]
    act = 'permit' if p else 'deny'
    if kind == 'v6':
        return 'extended %s ip 1000::%x:0/112 any6' % (act, i)
    return 'extended %s ip %s any4' % (act, V4[i % 8].replace('.0 ', '.%d ' % 0).replace('10.1.', '10.%d.' % (i // 8 + 1)))


def build_asa(acl, v6, raw):
    texts = {}

    def line(e, kind):
        t = asa_line(e, kind)
        texts[t] = e[0]
        return 'access-list inside_in ' + t
    acl_l = [line(e, 'v4') for e in acl[:-1]] if acl and not acl[-1][1] else [line(e, 'v4') for e in acl]
    if acl and not acl[-1][1]:
        texts['extended deny ip any4 any4'] = acl[-1][0]
        acl_l.append('access-list inside_in extended deny ip any4 any4')
    netspoc = '\n'.join(acl_l + ['access-group inside_in in interface inside']) + '\n'
    ipv6 = None
    if v6:
        l6 = [line(e, 'v6') for e in v6[:-1]]
        texts['extended deny ip any6 any6'] = v6[-1][0]
        l6.append('access-list inside_in extended deny ip any6 any6')
        ipv6 = '\n'.join(l6 + ['access-group inside_in in interface inside']) + '\n'
    rawt = None
    if raw:
        rl = [line(e, 'v4') for e in raw if not e[2]]
        ap = [line(e, 'v4') for e in raw if e[2]]
        rawt = '\n'.join(rl + (['[APPEND]'] + ap if ap else []) + ['access-group inside_in in interface inside']) + '\n'
    device = 'interface Ethernet0/0\n nameif inside\n'
    return dict(model='ASA', device=device, netspoc=netspoc, ipv6=ipv6, raw=rawt), texts


def parse_asa(out, texts):
    ids = []
    for ln in out.split('\n'):
        w = ln.split()
        if w[:1] == ['access-list'] and len(w) > 2:
            t = ' '.join(w[2:])
            if t in texts:
                ids.append(texts[t])
            else:
                ids.append(9999)
    return ids


def build_ios(acl, raw):
    texts = {}

    def line(e):
        t = '%s ip host 10.%d.%d.1 any' % ('permit' if e[1] else 'deny', e[0] // 200 + 1, e[0] % 200)
        texts[t] = e[0]
        return ' ' + t
    nl = ['ip access-list extended E1_in'] + [line(e) for e in acl] + ['interface Ethernet1', ' ip address 10.0.6.1 255.255.255.0', ' ip access-group E1_in in']
    rawt = None
    if raw:
        pre = [line(e) for e in raw if not e[2]]
        ap = [line(e) for e in raw if e[2]]
        hdr = 'ip access-list extended E1x'
        layout = sum(e[0] for e in raw) % 3
        if layout == 0 or not pre:
            # one block, the marker inside it
            body = [hdr] + pre + (['[APPEND]'] + ap if ap else [])
        elif layout == 1:
            # the same ACL in a second block behind the marker
            body = [hdr] + pre + (['[APPEND]', hdr] + ap if ap else [])
        else:
            # the ACL in several blocks in front of the marker too
            k = max(1, len(pre) // 2)
            body = [hdr] + pre[:k] + ([hdr] + pre[k:] if pre[k:] else []) + (['[APPEND]', hdr] + ap if ap else [])
        rawt = '\n'.join(body + ['interface Ethernet1', ' ip access-group E1x in']) + '\n'
    device = 'interface Ethernet1\n ip address 10.0.6.1 255.255.255.0\n'
    return dict(model='IOS', device=device, netspoc='\n'.join(nl) + '\n', raw=rawt), texts


def parse_ios(out, texts):
    ids, inacl = [], False
    for ln in out.split('\n'):
        if ln.startswith('ip access-list extended'):
            inacl = True
            continue
        if ln in ('exit',) or ln.startswith('interface'):
            inacl = False
        if inacl and ln.strip():
            ids.append(texts.get(ln.strip(), 9999))
    return ids


def build_linux(acl, raw):
    texts = {}

    def line(e):
        t = '-A INPUT -s 10.%d.%d.1 -j %s' % (e[0] // 200 + 1, e[0] % 200, 'ACCEPT' if e[1] else 'DROP')
        texts[t] = e[0]
        return t
    nl = ['*filter', ':INPUT DROP'] + [line(e) for e in acl] + ['COMMIT']
    rawt = None
    if raw:
        pre = [line(e) for e in raw if not e[2]]
        ap = [line(e) for e in raw if e[2]]
        rawt = '\n'.join(['*filter', ':INPUT DROP'] + pre + (['[APPEND]'] + ap if ap else []) + ['COMMIT']) + '\n'
    return dict(model='Linux', device='', netspoc='\n'.join(nl) + '\n', raw=rawt), texts


def parse_linux(out, texts):
    return [texts.get(ln.strip(), 9999) for ln in out.split('\n') if ln.startswith('-A ')]


def pan_rule(name, append):
    return ('<entry name="%s"><action>allow</action><from><member>z1</member></from><to><member>z2</member></to>'
            '<source><member>any</member></source><destination><member>any</member></destination>'
            '<service><member>any</member></service><application><member>any</member></application>'
            '<rule-type>interzone</rule-type>%s</entry>' % (name, '<APPEND/>' if append else ''))


def build_panos(acl, raw):
    texts = {}

    def vs(rules):
        return ('<config><devices><entry name="localhost.localdomain"><vsys><entry name="vsys1"><rulebase><security><rules>%s'
                '</rules></security></rulebase></entry></vsys></entry></devices></config>\n' % ''.join(rules))
    nr = []
    for e in acl:
        texts['r%d' % e[0]] = e[0]
        nr.append(pan_rule('r%d' % e[0], False))
    rr = []
    for e in raw:
        texts['raw%d' % e[0]] = e[0]
        rr.append(pan_rule('raw%d' % e[0], e[2]))
    return dict(model='PAN-OS', device=vs([]), netspoc=vs(nr), raw=vs(rr) if raw else None), texts


def build_panos_multi(rng, acl, v6, raw):
    """Netspoc IPv4 part: vsys1; the raw part also (or only) names vsys3, the IPv6 part only vsys2: a vsys known from one part only
    -> (job, texts, [(vsys, acl, raw)])"""
    texts = {}

    def cfg(vsys):
        return ('<config><devices><entry name="localhost.localdomain"><vsys>%s</vsys></entry></devices></config>\n' %
                ''.join('<entry name="%s"><rulebase><security><rules>%s</rules></security></rulebase></entry>' % (n, ''.join(rules)) for n, rules in vsys))

    def rules(prefix, es, raw_=False):
        out = []
        for e in es:
            texts['%s%d' % (prefix, e[0])] = e[0]
            out.append(pan_rule('%s%d' % (prefix, e[0]), raw_ and e[2]))
        return out
    mode = rng.choice(['all3', 'split', 'split'])
    raw1 = [e for e in raw if mode == 'split' and rng.random() < 0.5]
    raw3 = [e for e in raw if e not in raw1]
    rawv = ([('vsys1', rules('raw', raw1, True))] if raw1 else []) + ([('vsys3', rules('raw', raw3, True))] if raw3 else [])
    if rawv and rng.random() < 0.5:
        rawv.reverse()
    subs = [('vsys1', acl, raw1)]
    if raw3:
        subs.append(('vsys3', [], raw3))
    if v6:
        subs.append(('vsys2', v6, []))
    job = dict(model='PAN-OS', device=cfg([('vsys1', []), ('vsys2', []), ('vsys3', [])]), netspoc=cfg([('vsys1', rules('r', acl))]),
               raw=cfg(rawv) if rawv else None, ipv6=cfg([('vsys2', rules('r', v6))]) if v6 else None)
    return job, texts, subs


def parse_panos(out, texts, vsys=None):
    import re
    ids = []
    for ln in out.split('\n'):
        if vsys is not None and ("/vsys/entry[@name='%s']/" % vsys) not in ln:
            continue
        m = re.search(r"action=set&type=config&xpath=.*?/rulebase/security/rules/entry\[@name='([^']+)'\]&element", ln)
        if m:
            ids.append(texts.get(m.group(1), 9999))
        if 'action=move' in ln:
            ids.append(9998)
    return ids


def c_ent(e):
    return '(%d, %s)' % (e[0], C.cbool(e[1]))


def c_case(kind, acl, v6, raw, obs):
    return ('{| m_kind := %d; m_acl := %s; m_v6 := %s; m_v6_deny_last := %s; m_raw := %s; m_obs := %s |}' % (
        kind, C.clist([c_ent(e) for e in acl]), C.clist([c_ent(e) for e in v6]), C.cbool(bool(v6)),
        C.clist(['(%s, %s)' % (c_ent(e), C.cbool(e[2])) for e in raw]), C.clist([str(x) for x in obs])))


def main(ctx):
    st = ctx.proof_status()
    failing, breaks, cov = [], [], {}
    if ctx.build_impl():
        n = 60 if ctx.tier == 'quick' else 1500
        jobs, meta = [], []
        for fam in ('ASA', 'IOS', 'Linux', 'PAN-OS'):
            for _ in range(n):
                acl, v6, raw = gen_parts(ctx.rng, fam == 'ASA')
                if fam == 'ASA':
                    job, texts = build_asa(acl, v6, raw)
                    kind = 1 if v6 else 0
                elif fam == 'IOS':
                    job, texts = build_ios(acl, raw)
                    kind = 0
                elif fam == 'Linux':
                    # for a chain the "permitting" entries are those that are not DROP
                    job, texts = build_linux(acl, raw)
                    kind = 3
                else:
                    job, texts = build_panos(acl, raw)
                    kind = 2
                jobs.append(job)
                meta.append((fam, kind, acl, v6, raw, texts))
        for _ in range(n):
            # PAN-OS with a vsys that only the raw part or only the IPv6 part knows (one Coq case per vsys)
            acl, v6, raw = gen_parts(ctx.rng, True)
            job, texts, subs = build_panos_multi(ctx.rng, acl, v6, raw)
            jobs.append(job)
            meta.append(('PAN-OS', 2, acl, v6, raw, dict(texts, __subs=subs)))
        res = drcrun.run_many(ctx, jobs)
        items, used = [], []
        for i, (job, r, (fam, kind, acl, v6, raw, texts)) in enumerate(zip(jobs, res, meta)):
            rep = dict(property='C18', model=fam, command='drc -q device code/router',
                       files=dict(device=job['device'], netspoc=job['netspoc'], ipv6=job.get('ipv6'), raw=job.get('raw')),
                       stdout=r['out'], stderr=r['err'][-400:], rc=r['rc'])
            if r['panic'] or r['rc'] not in (0, 1):
                failing.append(dict(what='%s: drc crashes while merging the parts' % fam, replay=rep, finding=None, key='crash'))
                continue
            if r['rc'] != 0:
                breaks.append(dict(correspondence='%s: generated parts rejected' % fam, case=rep))
                continue
            if '__subs' in texts:
                for vname, acl_, raw_ in texts['__subs']:
                    items.append(c_case(2, acl_, [], raw_, parse_panos(r['out'], texts, vname)))
                    used.append((i, dict(rep, vsys=vname), fam))
                continue
            obs = {'ASA': parse_asa, 'IOS': parse_ios, 'Linux': parse_linux, 'PAN-OS': parse_panos}[fam](r['out'], texts)
            items.append(c_case(kind, acl, v6, raw, obs))
            used.append((i, rep, fam))
        v = []
        for s_ in range(0, len(items), 1500):
            text = ('From Coq Require Import List.\nFrom NA Require Import Merge.Model Merge.Check.\nImport ListNotations.\n'
                    'Definition V := Eval vm_compute in mverdicts %s.\nPrint V.\n' % C.clist(items[s_:s_ + 1500]))
            v += C.parse_verdict_list(ctx.coq_eval('c18_%d' % s_, text), 5 * len(items[s_:s_ + 1500]))
        names = ['', 'an entry is missing or duplicated in the effective target', 'the relative order inside a part is not preserved',
                 'a raw entry does not precede the Netspoc entries', 'an [APPEND] entry is misplaced']
        for k, (i, rep, fam) in enumerate(used):
            vv = v[5 * k:5 * k + 5]
            bad = [j for j in range(1, 5) if vv[j]]
            if bad:
                failing.append(dict(what='%s: %s' % (fam, names[bad[0]]), replay=rep, finding=None, key='%s-%d' % (fam, bad[0])))
            elif vv[0]:
                breaks.append(dict(correspondence='Merge.Model vs %s merge' % fam, case=rep))
        cov = dict(evaluations=len(jobs), distinct_nontrivial=len(set(items)),
                   rule='ASA (v4, v4+v6, raw, raw with [APPEND]), IOS, Linux chain, PAN-OS rulebase (also with a vsys known only from the raw or the IPv6 part): parts with 0-6 entries, '
                        'ACLs without permitting entries, only [APPEND] entries, empty parts; distinct by (parts, observed order)',
                   traces_validated_against_impl=len(items), correspondence_mismatches=len(breaks),
                   with_append=sum(1 for m in meta if any(e[2] for e in m[4])), without_permit=sum(1 for m in meta if not any(e[1] for e in m[2])),
                   samples=[used[0][1]] if used else [])
    cov = C.proof_coverage(ctx, cov)
    return C.finish(ctx, failing, breaks, cov,
                    ['the effective target is observed as the script for a device without rules (drc DEVICE NETSPOC)',
                     'NSX: rules of the raw part are appended to the policy of the same id (order is by sequence number); not generated here',
                     'diagnostics for raw entries that cannot be merged (unknown command, unbound or doubly bound object, name clash) are exercised by C20 / the repository tests'])
