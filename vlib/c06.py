"""C06 — approve never changes a wrong, unmanaged or passive device."""
from vlib import common as C
from vlib import session as S
from vlib import session_props as P

FAMS = ('ASA', 'IOS', 'Linux', 'PAN-OS', 'NSX')
EFFECT = {'change', 'change2', 'save', 'commit', 'enter', 'guard', 'prep'}


def scenarios(fam):
    """(label, kwargs, expectation) — expectation: 'blocked' | 'works'"""
    out = []
    if fam in ('ASA', 'IOS', 'Linux'):
        for name in ('route', 'router1', 'ROUTER', 'xrouter', 'other'):
            out.append(('hostname=%s' % name, dict(sc_extra=dict(reported_hostname=name)), 'blocked'))
        out.append(('marker absent', dict(sc_extra=dict(banner='', issue='')), 'blocked'))
        out.append(('marker absent, other banner', dict(sc_extra=dict(banner='Authorized access only', issue='Debian GNU/Linux\n')), 'blocked'))
        out.append(('marker not configured', dict(checkbanner=None, sc_extra=dict(banner='', issue='')), 'works'))
        out.append(('marker present', dict(), 'works'))
    elif fam == 'PAN-OS':
        out.append(('hostname=other', dict(sc_extra=dict(devices_xml=S.pan_device(hostname='other'))), 'blocked'))
        out.append(('hostname=route', dict(sc_extra=dict(devices_xml=S.pan_device(hostname='route'))), 'blocked'))
        out.append(('display-name without netspoc', dict(sc_extra=dict(devices_xml=S.pan_device(display='FW7-prod'))), 'blocked'))
        out.append(('no display-name', dict(sc_extra=dict(devices_xml=S.pan_device(display=None))), 'blocked'))
        M = 'FW-managed-by-Netspoc'
        for label, disp in (('two vsys, the first without marker', ['DMZ-customer-A', M]), ('two vsys, the second without marker', [M, 'DMZ-customer-B']),
                            ('three vsys, the middle one without marker', [M, 'lab', M])):
            out.append((label, dict(sc_extra=dict(devices_xml=S.pan_device2(disp)), target=S.pan_target2(len(disp))), 'blocked'))
        out.append(('two vsys, both marked', dict(sc_extra=dict(devices_xml=S.pan_device2([M, M])), target=S.pan_target2(2)), 'works'))
        for mode, state in (('Active-Passive', 'passive'), ('Active-Passive', 'suspended'), ('Active-Active', 'active-secondary'),
                            ('Active-Active', 'active'), ('Unknown', 'active')):
            out.append(('HA %s/%s' % (mode, state), dict(sc_extra=dict(ha_enabled='yes', ha_mode=mode, ha_state=state)), 'blocked'))
        out.append(('HA Active-Active/active-primary', dict(sc_extra=dict(ha_enabled='yes', ha_mode='Active-Active', ha_state='active-primary')), 'works'))
        out.append(('HA disabled', dict(sc_extra=dict(ha_enabled='no')), 'works'))
        out.append(('managed, active', dict(), 'works'))
        out.append(('marker not configured', dict(checkbanner=None), 'works'))
    else:
        out.append(('managed', dict(), 'works'))
    return out


def main(ctx):
    st = ctx.proof_status()
    failing, breaks, cov = [], [], {}
    if ctx.build_impl() and ctx.build_harness():
        jobs, meta = [], []
        for fam in FAMS:
            for front in ('drc', 'do-approve'):
                for label, kw, expect in scenarios(fam):
                    for tgt in (None, 'same'):
                        kw2 = dict(kw)
                        if tgt == 'same' and fam in ('ASA', 'IOS'):
                            # no pending change at all
                            kw2['target'] = S.TARGETS[fam][0].replace('interface Ethernet0/0\n nameif inside\n', '') if fam == 'ASA' else S.TARGETS[fam][0]
                        elif tgt == 'same':
                            continue
                        jobs.append(dict(fam=fam, front=front, mode='approve', timeout_s=1, **kw2))
                        meta.append((fam, front, label, expect, tgt))
        res = S.run_sessions(ctx, jobs)
        items = []
        for job, r, (fam, front, label, expect, tgt) in zip(jobs, res, meta):
            obs = P.observe(fam, r, set())
            eff = [e for e in obs if e[1] in EFFECT]
            rep = dict(property='C06', family=fam, front=front, scenario_label=label, scenario=r['scenario'],
                       checkbanner=job.get('checkbanner', 'NetSPoC'), received=[(e[0], e[1], e[2]) for e in obs], rc=r['rc'],
                       stderr=r['err'][-300:], target=r['target'])
            items.append((fam, front, label, tuple(e[1] for e in obs), r['rc']))
            if expect == 'blocked':
                if eff or r['rc'] == 0:
                    finding = 'F-C06-1' if fam == 'Linux' and label.startswith('marker absent') else None
                    failing.append(dict(what='%s via %s, %s: %s' % (fam, front, label,
                                        'the device receives ' + str([e[2] for e in eff][:3]) if eff else 'exit status 0'),
                                        replay=rep, finding=finding, key='blocked-' + label.split('=')[0]))
            else:
                pending = tgt is None
                if r['rc'] != 0 or (pending and not any(e[1] in ('change', 'change2') for e in obs)):
                    failing.append(dict(what='%s via %s, %s: approve does not work normally (rc=%s)' % (fam, front, label, r['rc']),
                                        replay=rep, finding=None, key='works-' + label))
        cov = dict(evaluations=len(items), distinct_nontrivial=len(set(items)),
                   rule='five device types x {drc, do-approve} x hostname variants (prefix, extension, case, unrelated) x marker '
                        '{present, absent, other banner, not configured} x PAN-OS HA states x {pending changes, none}; distinct by received classes',
                   traces_validated_against_impl=len(items),
                   samples=[dict(family=items[0][0], front=items[0][1], scenario=items[0][2], received=list(items[0][3]), rc=items[0][4])])
    cov = C.proof_coverage(ctx, cov)
    return C.finish(ctx, failing, breaks, cov,
                    ['the gate is modelled as: a wrong hostname is junk at the inspected name request; a missing marker removes the '
                     'changing part of the plan (Session.Model); simulators stand in for devices; NSX has no marker or hostname check in the tool'])
