"""The reviewed map-range sites of /repo/go (C16).  Key: (package, file, function,
loop header, hash of the normalised loop text) -> (pattern, reason).  A site that
is new, or whose text changed, is not in this table: the tie is broken until it
has been reviewed (and the table and DESIGN.md updated)."""
SITES = {
 ('cisco', 'config.go', 'MergeSpoc', 'for prefix := range b.lookup', '64c91f3e285f'):
   ('PerKey', 'creates the missing inner map of this prefix only'),
 ('cisco', 'config.go', 'MergeSpoc', 'for c, used := range isReferenced', '04e7214b36d1'):
   ('CollectSort', 'warnings are collected and sorted before they are printed'),
 ('cisco', 'diff.go', 'diffConfig', 'for _, l := range comb[prefix]', 'a13ff94306e9'):
   ('AnyAgree', 'reads typ.anchor of one command; all command types of one prefix agree on it (crypto map interface is moved to its own prefix)'),
 ('cisco', 'diff.go', 'diffSomeAnchors', 'for name, l := range m', 'cda157735e7a'):
   ('CollectSort', 'anchor names are collected and sorted'),
 ('cisco', 'diff.go', 'diffASAACLs', 'for cmd, p := range pos', '23b2230656a7'):
   ('PerKey', 'shifts the position stored for this command only'),
 ('cisco', 'diff.go', 'diffASAACLs', 'for cmd, p := range pos', 'cbce81041e26'):
   ('PerKey', 'shifts the position stored for this command only'),
 ('cisco', 'diff.go', 'deleteUnused', 'for prefix, m := range s.a.lookup', 'aa63b918e65f'):
   ('SetUnion', 'fills toDelete per (prefix, name) and marks stillReferenced entries true'),
 ('cisco', 'diff.go', 'deleteUnused', 'for name, l := range m', 'ecb290cb7495'):
   ('SetUnion', 'fills toDelete per (prefix, name) and marks stillReferenced entries true'),
 ('cisco', 'diff.go', 'deleteUnused', 'for p := range toDelete', 'b9794d918244'):
   ('PerKey', 'removes this key if it is still referenced'),
 ('cisco', 'diff.go', 'deleteUnused', 'for _, l := range toDelete', '28d339e731e5'):
   ('SetUnion', 'marks isReferenced entries true'),
 ('cisco', 'diff.go', 'generateNamesForTransfer', 'for prefix, m := range s.b.lookup', 'cd04f82d07e9'):
   ('PerKey', 'the new name of a command depends on the device names only'),
 ('cisco', 'diff.go', 'generateNamesForTransfer', 'for _, bl := range m', 'e9480b7db8bd'):
   ('PerKey', 'the new name of a command depends on the device names only'),
 ('cisco', 'diff.go', 'sortGroups', 'for _, gl := range cf.lookup["object-group"]', 'be4fd80155a5'):
   ('PerKey', 'sorts the members of this group'),
 ('cisco', 'diff.go', 'ignoreCryptoGDOI', 'for name := range rm', 'a63c841dac7c'):
   ('PerKey', 'deletes this crypto map'),
 ('cisco', 'parse.go', 'addDefaults', 'for k, vl := range defaultObjects', '4b1e4cf26515'):
   ('PerKey', 'adds the default object of this (prefix, name)'),
 ('cisco', 'parse.go', 'postprocessParsed', 'for _, l := range lookup["access-list"]', '779c75ee2142'):
   ('PerKey', 'normalises the commands of this name'),
 ('cisco', 'parse.go', 'postprocessParsed', 'for _, l := range lookup["ip access-list extended"]', '1b88fb9987b8'):
   ('PerKey', 'normalises the commands of this name'),
 ('cisco', 'parse.go', 'postprocessParsed', 'for _, l := range lookup[prefix]', '565bef2ca1c5'):
   ('PerKey', 'normalises the commands of this name'),
 ('cisco', 'parse.go', 'postprocessParsed', 'for _, l := range lookup[prefix]', 'eb0722bc8670'):
   ('PerKey', 'normalises the commands of this name'),
 ('cisco', 'parse.go', 'postprocessParsed', 'for _, l := range lookup["crypto ca certificate map"]', 'c5cee8fb75f3'):
   ('PerKey', 'normalises the commands of this name'),
 ('cisco', 'parse.go', 'postprocessParsed', 'for name, l := range lookup["tunnel-group"]', 'a6ce84033c72'):
   ('PerKey', 'marks the commands of this name'),
 ('cisco', 'verif_hooks.go', 'VerifNameTables', 'for k, v := range m', '855df4b1ebd7'):
   ('PerKey', 'hook (build tag verif): copies the entry of this key into the result map'),
 ('linux', 'parse.go', 'normalizeIPTables', 'for k, v := range pairs', '1c4da2c599fd'):
   ('PerKey', 'normalises the value of this option'),
 ('asa', 'device.go', 'isValidOutput', 'for prefix, re := range validOutput', '495608c21d95'):
   ('Exists', 'is the output line expected for some matching command prefix'),
 ('program', 'config.go', 'LoadConfig', 'for key, val := range defaultVals', '698e7597fae6'):
   ('PerKey', 'inserts the default of this key (constants that always parse)'),
}
PACKAGES = ['pkg/cisco', 'pkg/linux', 'pkg/nsx', 'pkg/panos', 'pkg/asa', 'pkg/ios', 'pkg/device', 'pkg/status', 'pkg/doapprove',
            'pkg/program', 'pkg/errlog', 'pkg/drc', 'pkg/httpdevice', 'pkg/console', 'pkg/codefiles', 'cmd/missing-approve']
