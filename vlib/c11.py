"""C11 — compare never changes the device."""
from vlib import common as C
from vlib import session as S
from vlib import session_props as P

FAMS = ('ASA', 'IOS', 'Linux', 'PAN-OS', 'NSX')


def main(ctx):
    st = ctx.proof_status()
    failing, breaks, cov = [], [], {}
    if ctx.build_impl() and ctx.build_harness():
        quick = ctx.tier == 'quick'
        jobs = []
        for fam in FAMS:
            for front in ('drc', 'do-approve'):
                # non-empty differences, every interlock outcome
                variants = [dict(), dict(sc_extra=dict(banner='', issue='', devices_xml=S.pan_device(display='FW7'))),
                            dict(checkbanner=None)]
                if fam in ('ASA', 'IOS'):
                    variants.append(dict(sc_extra=dict(config=S.TARGETS[fam][0] + ('interface Ethernet0/9\n nameif unknown\n' if fam == 'ASA'
                                                                                   else 'interface Ethernet9\n ip address 10.9.9.9 255.255.255.0\n'))))
                for v in variants:
                    jobs.append(dict(fam=fam, front=front, mode='compare', timeout_s=1, **v))
            # faults at every position of a compare run (do-approve)
            base = P.baseline(ctx, fam, 'do-approve', 'compare')
            n = len(P.plan_from(fam, base['tr']))
            kinds = (['error', 'garbage', 'eof'] if fam not in S.HTTP_FAMS else ['status500', 'malformed', 'eof'])
            step = 2 if quick else 1
            for k in range(1, n + 1, step):
                for kind in kinds:
                    jobs.append(dict(fam=fam, front='do-approve', mode='compare', faults=[dict(at=k, kind=kind)], timeout_s=1))
                    jobs.append(dict(fam=fam, front='do-approve', mode='compare', faults=[dict(at=k, kind=kind)], timeout_s=1,
                                     sc_extra=dict(banner='', issue='', devices_xml=S.pan_device(display='FW7'))))
        res = S.run_sessions(ctx, jobs)
        items, meta = [], []
        for job, r in zip(jobs, res):
            fam = job['fam']
            obs = P.observe(fam, r, set())
            plan = [(P.CODE[e[1]], False) for e in obs]
            items.append(P.c_scase(plan, [], [P.CODE[e[1]] for e in obs], True))
            meta.append((job, r, obs))
        verdicts = P.eval_scases(ctx, 'c11', items)
        bad = {'change', 'change2', 'save', 'commit', 'guard', 'unguard', 'prep'}
        for (job, r, obs), v in zip(meta, verdicts):
            fam = job['fam']
            ro = v[5]
            extra = [e for e in obs if e[1] in bad or (e[1] in ('enter', 'leave'))]
            if ro or extra or r['rc'] == 'hang' or r['rc'] not in (0, 1):
                failing.append(dict(what='%s %s compare: the device receives %s' % (fam, job['front'], [e[2] for e in extra][:4] or 'a changing command'),
                                    replay=dict(property='C11', family=fam, front=job['front'], mode='compare', scenario=r['scenario'],
                                                faults=job.get('faults'), received=[(e[0], e[1], e[2]) for e in obs], rc=r['rc'],
                                                stderr=r['err'][-300:], target=r['target']),
                                    finding=None, key='effect'))
        cov = dict(evaluations=len(items), distinct_nontrivial=len(set(items)),
                   rule='compare sessions (drc -C and do-approve compare) on five families with non-empty differences x '
                        '{marker present, marker missing, marker not configured, unknown interface} x fault at every (quick: every second) position; '
                        'distinct by received class sequence',
                   traces_validated_against_impl=len(items),
                   samples=[dict(family=meta[0][0]['fam'], front=meta[0][0]['front'], received=[e[1] for e in meta[0][2]])])
    cov = C.proof_coverage(ctx, cov)
    return C.finish(ctx, failing, breaks, cov,
                    ['devices are the simulators of sim/simdev.py and harness httpsim; the ASA terminal-width block '
                     '(configure terminal / terminal width 511 / end after sh term) is classified as session setting'])
