"""Session runs against the device simulators (sim/simdev.py for ASA / IOS /
Linux over the spawned command, harness `nah httpsim` for PAN-OS / NSX) with
fault plans; transcripts classified into command classes."""
import json, os, shutil, subprocess, time
from concurrent.futures import ThreadPoolExecutor

SIM = os.path.join(os.path.dirname(os.path.dirname(os.path.abspath(__file__))), 'sim', 'simdev.py')

ASA_DEV = ('interface Ethernet0/0\n nameif inside\n'
           'access-list inside extended permit ip host 2.2.2.2 any4\n'
           'access-list inside extended permit ip host 3.3.3.3 any4\n'
           'access-group inside in interface inside\nroute inside 10.20.0.0 255.255.0.0 10.1.2.3\n')
ASA_TGT = ('access-list inside extended permit ip host 1.1.1.1 any4\n'
           'access-list inside extended permit ip host 3.3.3.3 any4\n'
           'access-list inside extended permit ip host 2.2.2.2 any4\n'
           'access-group inside in interface inside\nroute inside 10.20.0.0 255.255.0.0 10.1.2.4\n')
IOS_DEV = ('ip access-list extended test\n permit ip host 2.2.2.2 any\n permit ip host 3.3.3.3 any\n deny ip any any\n'
           'interface Ethernet1\n ip address 10.1.1.1 255.255.255.0\n ip access-group test in\n'
           'ip route 10.20.0.0 255.255.0.0 10.1.2.3\n')
IOS_TGT = ('ip access-list extended test\n permit ip host 1.1.1.1 any\n permit ip host 3.3.3.3 any\n deny ip any any\n'
           'interface Ethernet1\n ip address 10.1.1.1 255.255.255.0\n ip access-group test in\n'
           'ip route 10.20.0.0 255.255.0.0 10.1.2.4\n')
LINUX_ROUTES = '10.20.0.0/16 via 10.1.2.3\n10.30.0.0/16 via 10.1.2.3\n'
LINUX_IPT = '*filter\n:INPUT DROP [0:0]\n-A INPUT -s 10.1.1.1/32 -j ACCEPT\nCOMMIT\n'
LINUX_TGT = ('ip route add 10.20.0.0/16 via 10.1.2.4\nip route add 10.40.0.0/16 via 10.1.2.3\n'
             '*filter\n:INPUT DROP\n-A INPUT -s 10.1.1.1 -j ACCEPT\n-A INPUT -s 10.1.1.2 -j ACCEPT\nCOMMIT\n')


def pan_rule(name, dst, srv='tcp 80'):
    return ('<entry name="%s"><action>allow</action><from><member>z1</member></from><to><member>z2</member></to>'
            '<source><member>IP_10.1.1.10</member></source><destination><member>%s</member></destination>'
            '<service><member>%s</member></service><application><member>any</member></application>'
            '<rule-type>interzone</rule-type><log-start>yes</log-start><log-end>yes</log-end></entry>' % (name, dst, srv))


def pan_vsys(rules, display='FW-managed-by-Netspoc', name='vsys1'):
    return ('<entry name="%s">%s<rulebase><security><rules>%s</rules></security></rulebase>'
            '<address><entry name="IP_10.1.1.10"><ip-netmask>10.1.1.10/32</ip-netmask></entry>'
            '<entry name="NET_10.1.2.0_24"><ip-netmask>10.1.2.0/24</ip-netmask></entry>'
            '<entry name="NET_10.1.3.0_24"><ip-netmask>10.1.3.0/24</ip-netmask></entry></address>'
            '<service><entry name="tcp 80"><protocol><tcp><port>80</port></tcp></protocol></entry>'
            '<entry name="udp 123"><protocol><udp><port>123</port></udp></protocol></entry></service></entry>'
            % (name, ('<display-name>%s</display-name>' % display) if display is not None else '', ''.join(rules)))


def pan_device(hostname='router', display='FW-managed-by-Netspoc'):
    return ('<entry name="localhost.localdomain"><deviceconfig><system><hostname>%s</hostname></system></deviceconfig>'
            '<vsys>%s</vsys></entry>' % (hostname, pan_vsys([pan_rule('r1', 'NET_10.1.2.0_24'), pan_rule('r2', 'NET_10.1.3.0_24', 'udp 123')], display)))


def pan_device2(displays, hostname='router'):
    """one vsys per display-name"""
    vs = ''.join(pan_vsys([pan_rule('r1', 'NET_10.1.2.0_24'), pan_rule('r2', 'NET_10.1.3.0_24', 'udp 123')], d, 'vsys%d' % (i + 1)) for i, d in enumerate(displays))
    return ('<entry name="localhost.localdomain"><deviceconfig><system><hostname>%s</hostname></system></deviceconfig>'
            '<vsys>%s</vsys></entry>' % (hostname, vs))


def pan_target2(n):
    vs = ''.join(pan_vsys([pan_rule('r1', 'NET_10.1.3.0_24'), pan_rule('r3', 'NET_10.1.2.0_24', 'udp 123')], None, 'vsys%d' % (i + 1)) for i in range(n))
    return '<config><devices><entry name="localhost.localdomain"><vsys>%s</vsys></entry></devices></config>\n' % vs


PAN_TGT = ('<config><devices><entry name="localhost.localdomain"><vsys>%s</vsys></entry></devices></config>\n'
           % pan_vsys([pan_rule('r1', 'NET_10.1.3.0_24'), pan_rule('r3', 'NET_10.1.2.0_24', 'udp 123')], None))


def nsx_conf(rules, groups, services):
    def grp(g):
        return dict(id='Netspoc-' + g[0], expression=[dict(id='id', resource_type='IPAddressExpression', ip_addresses=list(g[1]))])

    def srv(sv):
        return dict(id='Netspoc-%s_%s' % sv, service_entries=[dict(id='id', resource_type='L4PortSetServiceEntry',
                    l4_protocol=sv[0].upper(), destination_ports=[sv[1]], source_ports=[])])

    def rule(r):
        def ref(x):
            return '/infra/domains/default/groups/Netspoc-' + x if x.startswith('g') else x
        return dict(resource_type='Rule', id=r[0], scope=['/infra/tier-0s/v1'], direction='OUT', ip_protocol='IPV4',
                    sequence_number=r[4], action=r[5], source_groups=[ref(r[1])], destination_groups=[ref(r[2])],
                    services=['/infra/services/Netspoc-' + r[3] if r[3] != 'ANY' else 'ANY'])
    return dict(groups=[grp(g) for g in groups], services=[srv(sv) for sv in services],
                policies=[dict(id='Netspoc-v1', resource_type='GatewayPolicy', rules=[rule(r) for r in rules])])


NSX_DEV = nsx_conf([('r1', 'g0', '10.1.2.30', 'tcp_80', 20, 'ALLOW'), ('r2', 'ANY', 'ANY', 'ANY', 30, 'DROP')],
                   [('g0', ['10.1.1.10', '10.1.1.20'])], [('tcp', '80')])
NSX_TGT = nsx_conf([('r1', 'g0', '10.1.2.30', 'tcp_80', 20, 'ALLOW'), ('r5', '10.1.1.10', '10.1.2.40', 'udp_123', 20, 'ALLOW'),
                    ('r2', 'ANY', 'ANY', 'ANY', 30, 'DROP')],
                   [('g0', ['10.1.1.10', '10.1.1.20', '10.1.1.30'])], [('tcp', '80'), ('udp', '123')])

TARGETS = {'ASA': (ASA_DEV, ASA_TGT), 'IOS': (IOS_DEV, IOS_TGT), 'Linux': (None, LINUX_TGT),
           'PAN-OS': (None, PAN_TGT), 'NSX': (None, json.dumps(NSX_TGT))}
HTTP_FAMS = ('PAN-OS', 'NSX')


def classify(fam, text, state):
    """Command class of one line received by the simulator; state carries the phase."""
    t = text
    if t.startswith('do '):
        t = t[3:]
    prev = state.get('last')
    state['last'] = t
    if fam == 'ASA':
        if t in ('sh pager', 'sh term', 'terminal pager 0', 'terminal width 511'):
            return 'set'
        if t == 'configure terminal' and prev == 'sh term':
            state['widthblock'] = True
            return 'set'
        if t == 'end' and state.get('widthblock'):
            state['widthblock'] = False
            return 'set'
        if t in ('sh ver', 'show hostname', 'write term'):
            return 'read'
        if t == 'configure terminal':
            state['conf'] = True
            return 'enter'
        if t == 'end':
            state['conf'] = False
            return 'leave'
        if t == 'write memory':
            return 'save'
        if t == 'exit' and not state.get('conf'):
            return 'exit'
        if t == '':
            return 'sync'
        if t == 'enable':
            return 'login'
        return 'change' if state.get('conf') else 'other'
    if fam == 'IOS':
        if t in ('term len 0', 'term width 512'):
            return 'set'
        if t in ('sh ver', 'sh run'):
            return 'read'
        if t == 'configure terminal':
            state['conf'] = True
            return 'enter'
        if t == 'end':
            state['conf'] = False
            return 'leave'
        if t in ('no logging console', 'line vty 0 15', 'logging synchronous level all', 'ip subnet-zero', 'ip classless'):
            return 'prep'
        if t.startswith('reload in'):
            state['guard'] = True
            return 'guard'
        if t == 'reload cancel':
            state['guard'] = False
            return 'unguard'
        if t == 'write memory':
            return 'save'
        if t == 'n' and state.get('guard'):
            return 'guard-dialog'
        if t == '':
            return 'sync'
        if t == 'enable':
            return 'login'
        if t == 'exit' and not state.get('conf'):
            return 'exit'
        return 'change' if state.get('conf') else 'other'
    # Linux
    if t.startswith('PS1='):
        return 'set'
    if t in ('uname -r', 'uname -m', 'hostname -s', 'ip route show', 'iptables-save', 'which iptables-restore') or t.startswith('grep '):
        return 'read'
    if t == 'echo $?':
        return 'status'
    if t.startswith('ip route ') or t.startswith('chmod ') or t.startswith('/etc/network') or t.startswith('mv -f'):
        return 'change'
    if t == 'exit':
        return 'exit'
    return 'other'


def run_session(ctx, idx, fam, front, mode, sc_extra=None, faults=None, banners=None, checkbanner='NetSPoC',
                password='secret', timeout_s=2, target=None, device=None):
    """front: 'drc' | 'do-approve'; mode: 'approve' | 'compare'.  Returns dict with rc, stdout, stderr,
    transcript (list of (n, class, text)), files (log/status/history contents)."""
    d = os.path.join(ctx.work, 'sess%d' % idx)
    shutil.rmtree(d, ignore_errors=True)
    os.makedirs(d)
    dev_default, tgt_default = TARGETS[fam]
    sc = dict(family=fam, hostname='router', banner='managed by NetSPoC', enable='nopass', transcript=os.path.join(d, 'transcript'),
              config=device if device is not None else dev_default, routes=LINUX_ROUTES, iptables=LINUX_IPT, issue='managed by NetSPoC\n',
              faults=faults or [], banners=banners or [], stall_s=timeout_s + 2, nopager=False, width511=False)
    sc.update(sc_extra or {})
    with open(os.path.join(d, 'sc.json'), 'w') as fh:
        json.dump(sc, fh)
    with open(os.path.join(d, '.netspoc-approve'), 'w') as fh:
        fh.write('basedir = %s\nsystemuser = admin\ntimeout = %d\nlogin_timeout = %d\n' % (d, timeout_s, timeout_s))
        if checkbanner:
            fh.write('checkbanner = %s\n' % checkbanner)
    with open(os.path.join(d, 'credentials'), 'w') as fh:
        fh.write('* admin %s\n' % password)
    if front == 'do-approve':
        code = os.path.join(d, 'policies', 'p1', 'code')
        os.makedirs(code)
        os.symlink('p1', os.path.join(d, 'policies', 'current'))
        for sub in ('lock', 'status', 'history'):
            os.makedirs(os.path.join(d, sub), exist_ok=True)
    else:
        code = os.path.join(d, 'code')
        os.makedirs(code)
    with open(os.path.join(code, 'router'), 'w') as fh:
        fh.write(target if target is not None else tgt_default)
    with open(os.path.join(code, 'router.info'), 'w') as fh:
        json.dump(dict(model=fam, name_list=['router'], ip_list=['10.1.13.33']), fh)
    env = dict(os.environ, HOME=d, SIMULATE_ROUTER='python3 %s %s' % (SIM, os.path.join(d, 'sc.json')),
               TEST_TIME='2024-Sep-29 16:19:50')
    simproc = None
    if fam in HTTP_FAMS:
        hs = dict(family=fam, transcript=os.path.join(d, 'transcript'), faults=faults or [], stall_s=timeout_s + 2,
                  key='LUFRPT1SECRETKEY9=', token='tok-SESSION-8841', ha_enabled='yes', ha_mode='Active-Passive', ha_state='active',
                  devices_xml=pan_device(), job_pending=1, policies=NSX_DEV['policies'], services=NSX_DEV['services'],
                  groups=NSX_DEV['groups'], page_size=1)
        hs.update(sc_extra or {})
        with open(os.path.join(d, 'sc.json'), 'w') as fh:
            json.dump(hs, fh)
        simproc = subprocess.Popen([os.path.join(ctx.bin, 'nah'), 'httpsim', os.path.join(d, 'sc.json')],
                                   stdin=subprocess.PIPE, stdout=subprocess.PIPE, text=True)
        url = simproc.stdout.readline().strip()
        env['SIMULATE_ROUTER'] = url
        sc = hs
    if front == 'drc':
        cmd = [os.path.join(ctx.bin, 'drc'), '-L', os.path.join(d, 'log')] + (['-C'] if mode == 'compare' else []) + [os.path.join(code, 'router')]
    else:
        cmd = [os.path.join(ctx.bin, 'do-approve'), mode, 'router']
    t0 = time.time()
    try:
        p = subprocess.run(cmd, cwd=d, env=env, stdout=subprocess.PIPE, stderr=subprocess.PIPE, timeout=60)
        rc, out, err = p.returncode, p.stdout.decode('utf-8', 'replace'), p.stderr.decode('utf-8', 'replace')
    except subprocess.TimeoutExpired:
        rc, out, err = 'hang', '', 'timeout'
    if simproc is not None:
        simproc.stdin.close()
        try:
            simproc.wait(timeout=5)
        except subprocess.TimeoutExpired:
            simproc.kill()
    res = dict(rc=rc, out=out, err=err, wall=time.time() - t0, fam=fam, front=front, mode=mode,
               faults=faults or [], banners=banners or [], scenario=sc, target=target if target is not None else tgt_default)
    tr, state = [], {}
    tpath = os.path.join(d, 'transcript')
    login_lines = 0
    if os.path.exists(tpath) and fam in HTTP_FAMS:
        for ln in open(tpath):
            e = json.loads(ln)
            tr.append([e['n'], e['class'], '%s %s %s' % (e['method'], e['uri'], e['body'])] + (['fault:' + e['fault']] if e['fault'] else []))
    elif os.path.exists(tpath):
        for ln in open(tpath):
            e = json.loads(ln)
            if e['kind'] == 'recv':
                tr.append([e['n'], None, e['text']])
            elif e['kind'] == 'password' and tr:
                tr[-1][1] = 'login'
            elif e['kind'] == 'fault' and tr:
                tr[-1].append('fault:' + e['text'])
    if tr and tr[0][1] is None and fam not in HTTP_FAMS:
        tr[0][1] = 'login'          # the password line (the simulator may die before it labels it)
    for e in tr:
        if e[1] is None:
            e[1] = classify(fam, e[2], state)
    res['transcript'] = tr
    files = {}
    for root, _, fs in os.walk(d):
        for f in fs:
            pth = os.path.join(root, f)
            rel = os.path.relpath(pth, d)
            if rel in ('sc.json', 'transcript', 'credentials', '.netspoc-approve') or rel.startswith('policies/p1/code'):
                continue
            try:
                files[rel] = open(pth, 'rb').read().decode('utf-8', 'replace')
            except OSError:
                pass
    res['files'] = files
    shutil.rmtree(d, ignore_errors=True)
    return res


def run_sessions(ctx, jobs, workers=12):
    with ThreadPoolExecutor(workers) as ex:
        return list(ex.map(lambda ij: run_session(ctx, ij[0], **ij[1]), enumerate(jobs)))
