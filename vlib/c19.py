"""C19 — the policy database always points to a complete, compiled policy.

Proof: coq/theories/Newpolicy/{Model,Proofs}.v; Gen/NewpolicyScript.v is
regenerated from bin/newpolicy.sh on every run and must pass the verified
checker.  Tie: the real script runs against a local bare git repository with a
stub compiler; it is killed (SIGKILL) before each of its simple commands, for
histories of good / bad commits, and two invocations are started at once."""
import re
import os, shutil, subprocess, time
from concurrent.futures import ThreadPoolExecutor
from vlib import common as C

NETSPOC_STUB = r'''#!/bin/bash
SRC=$1; CODE=$2
[ -f "$HOME/slow" ] && sleep 2
if grep -q BAD_SYNTAX $SRC/topology; then
    echo "Error: bad syntax"; echo Aborted; exit 1
fi
mkdir -p $CODE
cp $SRC/topology $CODE/router
cp $SRC/topology $CODE/router.config
git -C $SRC rev-parse HEAD > $CODE/.compiled-from
exit 0
'''
RUNNER = r'''trap 'echo >>$COUNTFILE; __c=$(wc -l <$COUNTFILE);
      [ $__c -eq $KILLAT ] && kill -9 $$ $BASHPID' DEBUG
set -T
source $1
'''
# the same counter, but the script is parked (not killed) before its K-th simple command until a file appears
HOLDER = r'''trap 'echo >>$COUNTFILE; __c=$(wc -l <$COUNTFILE);
      if [ $__c -eq $HOLDAT ]; then touch $HOLDFLAG; while [ ! -e $RELEASE ]; do sleep 0.05; done; fi' DEBUG
set -T
source $1
'''


class Lab:
    def __init__(self, ctx):
        self.ctx = ctx
        self.root = os.path.join(ctx.work, 'np')
        os.makedirs(self.root)
        self.bin = os.path.join(self.root, 'bin')
        os.makedirs(self.bin)
        shutil.copy(os.path.join(ctx.bin, 'get-netspoc-approve-conf'), self.bin)
        for name, text in (('netspoc', NETSPOC_STUB), ('mail', '#!/bin/sh\ncat >/dev/null\n')):
            with open(os.path.join(self.bin, name), 'w') as fh:
                fh.write(text)
            os.chmod(os.path.join(self.bin, name), 0o755)
        with open(os.path.join(self.root, 'runner.sh'), 'w') as fh:
            fh.write(RUNNER)
        with open(os.path.join(self.root, 'holder.sh'), 'w') as fh:
            fh.write(HOLDER)
        self.script = os.path.join(C.REPO, 'bin', 'newpolicy.sh')
        self.tmpl = os.path.join(self.root, 'tmpl')

    def env(self, home):
        return dict(os.environ, HOME=home, GIT_CONFIG_NOSYSTEM='1', PATH=self.bin + ':' + os.path.join(C.REPO, 'bin') + ':' + os.environ['PATH'])

    def sh(self, home, cmd, **kw):
        return subprocess.run(['bash', '-c', cmd], env=self.env(home), stdout=subprocess.PIPE, stderr=subprocess.STDOUT, text=True, **kw)

    def run(self, home, killat=0):
        cf = os.path.join(home, 'count')
        open(cf, 'w').close()
        e = self.env(home)
        e.update(KILLAT=str(killat), COUNTFILE=cf)
        p = subprocess.run(['bash', '-c', 'bash %s %s; exit $?' % (os.path.join(self.root, 'runner.sh'), self.script)],
                           env=e, stdin=subprocess.DEVNULL, stdout=subprocess.PIPE, stderr=subprocess.STDOUT, text=True, timeout=120)
        n = sum(1 for _ in open(cf))
        return p.returncode, n

    def setup(self):
        home = os.path.join(self.root, 'home0')
        os.makedirs(os.path.join(home, 'policies'))
        os.makedirs(os.path.join(home, 'lock'))
        r = self.sh(home, '''set -e
cd $HOME
git config --global user.name "System User"
git config --global user.email ""
git config --global init.defaultBranch master
git config --global pull.rebase true
mkdir tmp-git && cd tmp-git
echo "network:n1 = { ip = 10.1.1.0/24; }" > topology
git init --quiet && git add . && git commit --quiet -m initial
cd .. && git clone --quiet --bare tmp-git netspoc.git && rm -rf tmp-git
git clone --quiet netspoc.git netspoc
git -C netspoc config --local user.name "Test User"
git -C netspoc config --local user.email user@example.com
''')
        if r.returncode:
            raise RuntimeError('git setup failed: ' + r.stdout[-400:])
        with open(os.path.join(home, '.netspoc-approve'), 'w') as fh:
            fh.write('basedir = HOMEDIR\nnetspoc_git = file://HOMEDIR/netspoc.git\nadmin_emails = admin1@example.com\n')
        self.fixup(home)
        rc, n = self.run(home)
        if self.current(home) != 'p1':
            raise RuntimeError('template run did not produce p1 (rc=%s)' % rc)
        os.rename(home, self.tmpl)

    def fixup(self, home):
        p = os.path.join(home, '.netspoc-approve')
        s = open(p).read()
        s = '\n'.join(('basedir = ' + home) if l.startswith('basedir') else
                      ('netspoc_git = file://' + home + '/netspoc.git') if l.startswith('netspoc_git') else l for l in s.split('\n'))
        open(p, 'w').write(s)

    def fresh(self, tag):
        home = os.path.join(self.root, 'h' + tag)
        shutil.rmtree(home, ignore_errors=True)
        shutil.copytree(self.tmpl, home, symlinks=True)
        self.fixup(home)
        # the clones carry the absolute path of the bare repository
        for cfg in (os.path.join(home, 'netspoc/.git/config'), os.path.join(home, 'policies/p1/src/.git/config')):
            if os.path.exists(cfg):
                s = open(cfg).read().replace(self.tmpl, home).replace(os.path.join(self.root, 'home0'), home)
                open(cfg, 'w').write(s)
        return home

    def commit(self, home, text):
        r = self.sh(home, 'cd $HOME/netspoc && git pull --quiet && echo "%s" > topology && git add --all && '
                          'git commit --quiet -m test && git push --quiet && git rev-parse HEAD' % text)
        return r.stdout.strip().split('\n')[-1]

    def current(self, home):
        p = os.path.join(home, 'policies', 'current')
        return os.readlink(p) if os.path.islink(p) else None

    def complete(self, home, pol):
        return os.path.isfile(os.path.join(home, 'policies', pol, 'code', '.compiled-from'))

    def compiled_from(self, home, pol):
        p = os.path.join(home, 'policies', pol, 'code', '.compiled-from')
        return open(p).read().strip() if os.path.isfile(p) else None

    def dirs(self, home):
        return sorted(d for d in os.listdir(os.path.join(home, 'policies')) if d[0] == 'p' and d[1:].isdigit())

    # ---- observation for the tie of Newpolicy/Live.v: revisions are the commits the script did not make itself ----
    def base_rev(self, home, gitdir, ref='HEAD'):
        """the nearest ancestor of ref (ref included) that is not a POLICY commit of the script ('pN'); None if unreadable"""
        r = self.sh(home, "git --git-dir=%s log --format='%%H %%s' %s 2>/dev/null" % (gitdir, ref))
        for line in r.stdout.split('\n'):
            if ' ' in line:
                h, subj = line.split(' ', 1)
                if not re.match(r'^p[0-9]+$', subj.strip()):
                    return h
        return None

    def is_bad(self, home, h):
        return 'BAD_SYNTAX' in self.sh(home, 'git --git-dir=$HOME/netspoc.git show %s:topology 2>/dev/null' % h).stdout

    def observe(self, home, revs):
        """-> dict(head, nxt, failed, curr) with revisions numbered in order of appearance (revs: hash -> (number, bad))"""
        def num_(h):
            if h is None:
                return None
            if h not in revs:
                revs[h] = (len(revs) + 1, self.is_bad(home, h))
            return revs[h][0]
        pol = os.path.join(home, 'policies')
        head = num_(self.base_rev(home, os.path.join(home, 'netspoc.git'), 'master'))
        nd = os.path.join(pol, 'next')
        if not os.path.isdir(nd):
            nxt = None
        elif not os.path.exists(os.path.join(nd, 'src', '.git', 'refs', 'heads', 'master')):
            nxt = 'empty'
        else:
            nxt = num_(self.base_rev(home, os.path.join(nd, 'src', '.git')))
        cur = self.current(home)
        curr = num_(self.base_rev(home, os.path.join(pol, cur, 'src', '.git'))) if cur else None
        return dict(head=head, nxt=nxt, failed=os.path.exists(os.path.join(pol, 'failed')), curr=curr)

    def run_tied(self, home, killat, revs, ties):
        """run() with the observed states before and after recorded for the comparison with the model; a run during
        which the head of the repository moved to another revision (a bad commit was reverted: the loop of main) is not compared"""
        a = self.observe(home, revs)
        rc, n = self.run(home, killat)
        b = self.observe(home, revs)
        # not compared: the head moved (a bad commit was reverted and pushed), or next holds a commit that exists only there
        # (try_revert committed the revert and was killed before the push) — try_revert and the loop of main are not modelled
        local_only = isinstance(b['nxt'], int) and b['nxt'] not in (a['head'], a['nxt'])
        if a['head'] is not None and a['head'] == b['head'] and not local_only and (not killat or n >= killat):
            ties.append(dict(killed=bool(killat), a=a, b=b))
        return rc, n


def num(p):
    return int(p[1:]) if p else 0


def safety(lab, home, before, label):
    """current absent or complete; number not decreased; no stray next inside a policy directory"""
    probs = []
    cur = lab.current(home)
    if cur is not None and not lab.complete(home, cur):
        probs.append('%s: current -> %s is not a completely compiled policy' % (label, cur))
    if num(cur) < num(before) and cur is not None:
        probs.append('%s: policy number decreased %s -> %s' % (label, before, cur))
    for d in lab.dirs(home):
        if os.path.exists(os.path.join(home, 'policies', d, 'next')):
            probs.append('%s: a compile result was moved into the existing directory %s' % (label, d))
    return probs


def fix_after_failed_case(lab, K):
    """A commit that does not compile and is not reverted (its author has no e-mail address) leaves the marker 'failed' and the
    directory 'next'; then a compiling commit is pushed and the run that processes it is killed before command K; the next
    undisturbed run must make the compiling revision current."""
    home = lab.fresh('faf%d' % K)
    events, probs, live = [], [], []
    revs, ties = {}, []
    lab.sh(home, 'cd $HOME/netspoc && git pull --quiet && echo "BAD_SYNTAX 1" > topology && git add --all && '
                 'git -c user.email= commit --quiet -m bad && git push --quiet')
    rc0, _ = lab.run_tied(home, 0, revs, ties)
    events.append('commit B1 (does not compile, author without e-mail address: not reverted); undisturbed run (rc=%s)' % rc0)
    probs += safety(lab, home, 'p1', 'after the failed compile')
    fix = lab.commit(home, 'network:n1 = { ip = 10.1.1.0/24; } # FIX')
    rc, n = lab.run_tied(home, K, revs, ties)
    if n < K:
        shutil.rmtree(home, ignore_errors=True)
        return None
    events.append('commit FIX (compiles); newpolicy.sh killed before command %d' % K)
    probs += safety(lab, home, 'p1', 'after the kill')
    cur1 = lab.current(home) or 'p1'
    rc2, _ = lab.run_tied(home, 0, revs, ties)
    events.append('undisturbed run (rc=%s)' % rc2)
    probs += safety(lab, home, cur1, 'after the undisturbed run')
    cur2 = lab.current(home)
    remote = lab.sh(home, 'git -C $HOME/netspoc.git rev-parse master').stdout.strip()
    local = lab.sh(home, 'git -C $HOME/policies/%s/src rev-parse HEAD' % cur2).stdout.strip() if cur2 else ''
    if cur2 is None or not (local == remote or lab.compiled_from(home, cur2) == remote):
        live.append('after the next undisturbed run current (%s) is not the newest compiling revision' % cur2)
    shutil.rmtree(home, ignore_errors=True)
    return dict(K=K, variant='fix-after-failed', events=events, problems=probs, liveness=live, rc=rc2, ties=ties, bads=sorted(n_ for n_, bad in revs.values() if bad))


def padded_case(lab, num):
    """the POLICY file of the repository holds a number padded by hand (leading zeros): the next number is still max(file, link) + 1, decimal"""
    home = lab.fresh('pad' + num)
    probs, live = [], []
    lab.sh(home, 'cd $HOME/netspoc && git pull --quiet && echo "# p%s # padded by hand" > POLICY && echo "network:n1 = { ip = 10.1.1.0/24; } # PAD" > topology && '
                 'git add --all && git commit --quiet -m test && git push --quiet' % num)
    events = ['commit C1 with POLICY file "# p%s"' % num]
    for i in range(2):
        rc, _ = lab.run(home, 0)
        events.append('undisturbed run (rc=%s)' % rc)
    probs += safety(lab, home, 'p1', 'after the undisturbed runs')
    cur = lab.current(home)
    want = 'p%d' % (int(num) + 1)
    if cur != want:
        probs.append('policy number: the POLICY file says p%s and the link p1, the next policy must be %s (maximum + 1), but current is %s' % (num, want, cur))
    remote = lab.sh(home, 'git -C $HOME/netspoc.git rev-parse master').stdout.strip()
    local = lab.sh(home, 'git -C $HOME/policies/%s/src rev-parse HEAD' % cur).stdout.strip() if cur else ''
    if cur is None or not (local == remote or lab.compiled_from(home, cur) == remote):
        live.append('after two undisturbed runs current (%s) is not the newest compiling revision' % cur)
    shutil.rmtree(home, ignore_errors=True)
    return dict(K=0, variant='padded-' + num, events=events, problems=probs, liveness=live, rc=rc)


def kill_case(lab, K, variant):
    home = lab.fresh('%s%d' % (variant, K))
    events, probs = [], []
    revs, ties = {}, []
    good1 = variant != 'bad'
    c1 = lab.commit(home, 'network:n1 = { ip = 10.1.1.0/24; } # C1' if good1 else 'BAD_SYNTAX 1')
    rc, n = lab.run_tied(home, K, revs, ties)
    if n < K:
        shutil.rmtree(home, ignore_errors=True)
        return None
    events.append('commit %s; newpolicy.sh killed before command %d' % ('C1' if good1 else 'B1 (does not compile)', K))
    probs += safety(lab, home, 'p1', 'after the kill')
    cur1 = lab.current(home) or 'p1'
    if not good1 and lab.current(home) is not None and lab.compiled_from(home, lab.current(home)) == c1:
        probs.append('current -> %s was compiled from the commit that does not compile' % lab.current(home))
    dirs_before = lab.dirs(home)
    newest = c1 if good1 else None
    if variant == 'c2':
        newest = lab.commit(home, 'network:n1 = { ip = 10.1.1.0/24; } # C2')
        events.append('commit C2')
    rc2, _ = lab.run_tied(home, 0, revs, ties)
    events.append('undisturbed run (rc=%s)' % rc2)
    probs += safety(lab, home, cur1, 'after the undisturbed run')
    cur2 = lab.current(home)
    live = []
    if newest is not None:
        # in sync: the source tree of current is at the head of the repository (the compiled revision plus the
        # POLICY commit the script itself pushes), or current was compiled from the head itself
        remote = lab.sh(home, 'git -C $HOME/netspoc.git rev-parse master').stdout.strip()
        local = lab.sh(home, 'git -C $HOME/policies/%s/src rev-parse HEAD' % cur2).stdout.strip() if cur2 else ''
        if cur2 is None or not (local == remote or lab.compiled_from(home, cur2) == remote):
            live.append('after the next undisturbed run current (%s) is not the newest compiling revision' % cur2)
        elif cur2 != cur1 and (num(cur2) <= num(cur1) or cur2 in dirs_before):
            probs.append('policy number not fresh: %s -> %s (directories before: %s)' % (cur1, cur2, dirs_before))
    else:
        # the bad commit may have been reverted and the reverted tree compiled; current must never be a compile of the bad commit
        if cur2 is not None and lab.compiled_from(home, cur2) == c1:
            probs.append('current -> %s was compiled from the commit that does not compile' % cur2)
    nxt_left = os.path.isdir(os.path.join(home, 'policies', 'next'))
    failed = os.path.exists(os.path.join(home, 'policies', 'failed'))
    shutil.rmtree(home, ignore_errors=True)
    return dict(K=K, variant=variant, events=events, problems=probs, liveness=live, rc=rc2, ties=ties, bads=sorted(n_ for n_, bad in revs.values() if bad))


def concurrent_case(lab, i):
    home = lab.fresh('conc%d' % i)
    lab.commit(home, 'network:n1 = { ip = 10.1.1.0/24; } # C1')
    open(os.path.join(home, 'slow'), 'w').close()
    e = lab.env(home)
    a = subprocess.Popen(['bash', lab.script], env=e, stdin=subprocess.DEVNULL, stdout=subprocess.DEVNULL, stderr=subprocess.DEVNULL)
    time.sleep(0.5 + 0.3 * i)
    b = subprocess.run(['bash', lab.script], env=e, stdin=subprocess.DEVNULL, stdout=subprocess.PIPE, stderr=subprocess.STDOUT, text=True, timeout=60)
    a.wait(timeout=60)
    probs = []
    if b.returncode != 1:
        probs.append('a second newpolicy.sh started while the first one works exits with %s instead of 1' % b.returncode)
    if lab.current(home) != 'p2' or lab.dirs(home) != ['p1', 'p2']:
        probs.append('after two simultaneous invocations: current=%s directories=%s' % (lab.current(home), lab.dirs(home)))
    probs += safety(lab, home, 'p1', 'after two simultaneous invocations')
    shutil.rmtree(home, ignore_errors=True)
    return dict(K=0, variant='concurrent', events=['two invocations %0.1f s apart' % (0.5 + 0.3 * i)], problems=probs, liveness=[], rc=b.returncode)


def snapshot(home):
    """names below policies/ (two levels) and the target of current"""
    out = []
    base = os.path.join(home, 'policies')
    for d in sorted(os.listdir(base)):
        p = os.path.join(base, d)
        if os.path.islink(p):
            out.append('%s -> %s' % (d, os.readlink(p)))
        elif os.path.isdir(p):
            out.append('%s/ %s' % (d, ' '.join(sorted(os.listdir(p)))))
        else:
            out.append(d)
    return out


def hold_case(lab, K):
    """invocation A is parked before its K-th simple command; invocation B runs to its end; A goes on."""
    home = lab.fresh('hold%d' % K)
    c1 = lab.commit(home, 'network:n1 = { ip = 10.1.1.0/24; } # C1')
    cf, flag, rel = (os.path.join(home, x) for x in ('count', 'held', 'release'))
    open(cf, 'w').close()
    e = lab.env(home)
    e.update(HOLDAT=str(K), COUNTFILE=cf, HOLDFLAG=flag, RELEASE=rel)
    a = subprocess.Popen(['bash', os.path.join(lab.root, 'holder.sh'), lab.script], env=e, stdin=subprocess.DEVNULL,
                         stdout=subprocess.DEVNULL, stderr=subprocess.DEVNULL)
    t0 = time.time()
    while not os.path.exists(flag) and a.poll() is None and time.time() - t0 < 60:
        time.sleep(0.05)
    if not os.path.exists(flag):
        a.wait(timeout=60)
        shutil.rmtree(home, ignore_errors=True)
        return None
    before = snapshot(home)
    b = subprocess.run(['bash', lab.script], env=lab.env(home), stdin=subprocess.DEVNULL, stdout=subprocess.PIPE, stderr=subprocess.STDOUT, text=True, timeout=120)
    after = snapshot(home)
    probs, events = [], ['commit C1', 'invocation A parked before its command %d' % K, 'invocation B runs (rc=%s)' % b.returncode]
    if b.returncode == 1 and before != after:
        probs.append('an invocation that found the lock taken (exit 1) changed the policy database: %s -> %s' % (before, after))
    probs += safety(lab, home, 'p1', 'after invocation B')
    open(rel, 'w').close()
    try:
        a.wait(timeout=120)
    except subprocess.TimeoutExpired:
        a.kill()
        probs.append('invocation A does not end after it was released')
    events.append('A released (rc=%s)' % a.returncode)
    probs += safety(lab, home, 'p1', 'after both invocations')
    rc3, _ = lab.run(home, 0)
    events.append('undisturbed run (rc=%s)' % rc3)
    probs += safety(lab, home, 'p1', 'after the undisturbed run')
    cur = lab.current(home)
    live = []
    remote = lab.sh(home, 'git -C $HOME/netspoc.git rev-parse master').stdout.strip()
    local = lab.sh(home, 'git -C $HOME/policies/%s/src rev-parse HEAD' % cur).stdout.strip() if cur else ''
    if cur is None or not (local == remote or lab.compiled_from(home, cur) == remote):
        live.append('after two overlapping invocations and an undisturbed run current (%s) is not the newest compiling revision' % cur)
    elif not lab.complete(home, cur) or lab.compiled_from(home, cur) not in (c1, remote):
        probs.append('current -> %s was not compiled from the committed revision' % cur)
    shutil.rmtree(home, ignore_errors=True)
    return dict(K=K, variant='overlap', events=events, problems=probs, liveness=live, rc=rc3)


def main(ctx):
    st = ctx.proof_status()
    failing, breaks, cov = [], [], {}
    if ctx.build_impl():
        quick = ctx.tier == 'quick'
        lab = Lab(ctx)
        lab.setup()
        # number of simple commands of one undisturbed run
        h = lab.fresh('probe')
        lab.commit(h, 'network:n1 = { ip = 10.1.1.0/24; } # C1')
        _, N = lab.run(h, 0)
        shutil.rmtree(h, ignore_errors=True)
        jobs = []
        for K in range(1, N + 1):
            jobs.append((K, 'c1'))
            if not quick or K % 2 == 0:
                jobs.append((K, 'c2'))
            if not quick or K % 3 == 0:
                jobs.append((K, 'bad'))
        with ThreadPoolExecutor(12) as ex:
            res = [r for r in ex.map(lambda j: kill_case(lab, *j), jobs) if r]
        with ThreadPoolExecutor(12) as ex:
            res += [r for r in ex.map(lambda k: fix_after_failed_case(lab, k), [K for K in range(1, N + 1) if not quick or K % 3 == 2 or K > N - 12]) if r]
        res += [padded_case(lab, num_) for num_ in ('010', '018', '0009')]
        res += [concurrent_case(lab, i) for i in range(2)]
        with ThreadPoolExecutor(12) as ex:
            res += [r for r in ex.map(lambda k: hold_case(lab, k), [K for K in range(1, N + 1) if not quick or K % 3 == 1]) if r]
        for r in res:
            rep = dict(property='C19', kill_before_command=r['K'], history=r['events'], variant=r['variant'],
                       how='bin/newpolicy.sh from the current tree, real git with a local bare repository, stub compiler '
                           '(fails iff the topology contains BAD_SYNTAX) and stub mail; SIGKILL right before the K-th simple command (DEBUG trap)')
            for p in r['problems']:
                failing.append(dict(what=p, replay=dict(rep, problem=p), finding=None, key=p.split(':')[0][:30]))
            for p in r['liveness']:
                failing.append(dict(what='kill before command %d, no further commit: %s' % (r['K'], p), replay=dict(rep, problem=p),
                                    finding='F-C19-1' if r['variant'] == 'c1' else None, key='live'))
        # tie of Newpolicy/Live.v (next, marker, uptodate): every observed run against the model, evaluated in Coq
        def c_obs(o):
            on = lambda x: 'None' if x is None else '(Some %d)' % x
            nx = 'None' if o['nxt'] is None else ('(Some None)' if o['nxt'] == 'empty' else '(Some (Some %d))' % o['nxt'])
            return '{| o_head := %d; o_nxt := %s; o_failed := %s; o_curr := %s |}' % (o['head'], nx, C.cbool(o['failed']), on(o['curr']))
        titems, tmeta = [], []
        for r in res:
            for t in r.get('ties', []):
                titems.append('(%s, %s, %s, %s)' % (C.clist([str(x) for x in r['bads']]), C.cbool(t['killed']), c_obs(t['a']), c_obs(t['b'])))
                tmeta.append((r, t))
        ntie = len(titems)
        if titems:
            text = ('From Coq Require Import List.\nFrom NA Require Import Newpolicy.Model Newpolicy.Live Newpolicy.LiveCheck Gen.NewpolicyScript.\nImport ListNotations.\n'
                    'Definition V := Eval vm_compute in tie_verdicts newpolicy_script %s.\nPrint V.\n' % C.clist(titems))
            tv = C.parse_verdict_list(ctx.coq_eval('c19_live', text), len(titems))
            for (r, t), bad in zip(tmeta, tv):
                if bad:
                    breaks.append(dict(correspondence='Newpolicy/Live.v (next, marker failed, uptodate) vs bin/newpolicy.sh: the state observed after a %s run is not a state of the model'
                                                      % ('killed' if t['killed'] else 'undisturbed'),
                                       case=dict(kill_before_command=r['K'], variant=r['variant'], history=r['events'], before=t['a'], after=t['b'], not_compiling_revisions=r['bads'])))
        cov = dict(evaluations=len(res), distinct_nontrivial=len(set((r['K'], r['variant']) for r in res)), runs_compared_with_live_model=ntie,
                   rule='one run of newpolicy.sh has %d simple commands; kill before each x {no further commit, a further good commit, '
                        'a commit that does not compile (sampled in quick)} followed by an undisturbed run; the same after an unreverted failed compile that left the marker failed and a compiling commit (sampled in quick); POLICY files with numbers padded by hand; two simultaneous invocations; '
                        'a second invocation while the first is parked before command K (sampled in quick), which must not touch the database when it finds the lock taken; '
                        'distinct by (kill position, history)' % N,
                   traces_validated_against_impl=len(res), simple_commands=N,
                   samples=[dict(K=res[0]['K'], variant=res[0]['variant'], events=res[0]['events'])] if res else [])
    cov = C.proof_coverage(ctx, cov)
    return C.finish(ctx, failing, breaks, cov,
                    ['git (clone, commit, pull, push) and flock(1) behave as usual and are atomic as far as the script relies on it; push failures are not modelled',
                     'the translator vlib/translators.py (gen_newpolicy) maps every simple command of the script to an abstract operation; an unknown command is a broken tie'])
