"""C01, C02, C07, C08, C10, C14 for ASA / IOS: one driver, the property selects
which verdict decides.  See vlib/ciscocheck.py and coq/theories/Cisco/."""
import json
from vlib import common as C
from vlib import cisco as K
from vlib import ciscocheck as CC
from vlib import drcrun

SETTINGS = {
    # families, options of the generator, number of prefix-resume cases
    'C01': dict(fam=[False], n=(140, 3000), opts=dict(packets=False), resume=(0, 0), core=(150, 3000)),
    'C02': dict(fam=[True], n=(140, 3000), opts=dict(packets=False), resume=(0, 0), core=(150, 3000)),
    'C07': dict(fam=[False, True], n=(90, 2000), opts=dict(packets=False, unmanaged=True), resume=(0, 0)),
    'C08': dict(fam=[False, True], n=(90, 2000), opts=dict(packets=False), resume=(0, 0), core=(100, 2000)),
    'C10': dict(fam=[False, True], n=(40, 600), opts=dict(packets=False), resume=(25, 400)),
    'C14': dict(fam=[False, True], n=(110, 2500), opts=dict(packets=True, groups=False), resume=(0, 0)),
}


def kind(r):
    la, ha, lb, hb = r
    return 'I' if la == ha else ('D' if lb == hb else 'E')


def moves_down_over_pending(al, bl, rs, ios):
    """A line is moved downwards across a line that is deleted, or moved, later in the same run."""
    delpos, insgap, insidx = {}, {}, {}
    for r in rs:
        la, ha, lb, hb = r
        if kind(r) == 'D':
            for i in range(la, ha):
                delpos[K.body_key(al[i], ios)] = i
        if kind(r) == 'I':
            for j in range(lb, hb):
                insgap[K.body_key(bl[j], ios)] = la
                insidx[K.body_key(bl[j], ios)] = j
    for b, i in delpos.items():
        if b not in insgap:
            continue
        g = insgap[b]
        if g <= i:
            continue
        for b2, j in delpos.items():
            if i < j < g and (b2 not in insgap or insidx[b2] > insidx[b]):
                return True
    return False


def c14_findings(ctx, c, ios):
    """Known-finding predicates of C14 on the input (per bound ACL pair)."""
    hits = set()
    pairs, meta = [], []
    for loc, a in c['dev']['binds'].items():
        b = c['tgt']['binds'].get(loc)
        if b is None:
            continue
        al, bl = c['dev']['acls'].get(a, []), c['tgt']['acls'].get(b, [])
        pairs.append(([' '.join(l) for l in al], [' '.join(l) for l in bl]))
        meta.append((al, bl))
    for (al, bl), rs in zip(meta, K.myers_ranges(ctx, pairs) if pairs else []):
        if not any(kind(r) == 'E' for r in rs):
            if ios and al and bl:
                hits.add('F-C14-2')
            continue
        if moves_down_over_pending(al, bl, rs, ios):
            hits.add('F-C14-1')
    return hits


def core_check(ctx, n, ios=False, stepwise=False):
    """Exact correspondence of the Gallina ACL cores (Cisco.AsaAcl.diff_asa, Cisco.IosAcl.diff_ios)
    with the implementation on single-ACL inputs, with the edit script the library returns."""
    pool = K.core_pool(ios)
    logs = K.LOGS_IOS if ios else K.LOGS
    cases = [K.gen_core_case(ctx.rng, ios, pool) for _ in range(n)]

    def cfg(l):
        if ios:
            return dict(intfs=['Ethernet1'], groups={}, acls={'test': [K.core_text(e, pool, ios) for e in l]},
                        binds={('Ethernet1', 'in'): 'test'}, routes=[], intf_sub={})
        return dict(intfs=['inside'], groups={}, acls={'inside': [K.core_text(e, pool, ios) for e in l]},
                    binds={('in', 'interface', 'inside'): 'inside'}, routes=[], intf_sub={})
    model = 'IOS' if ios else 'ASA'
    jobs = [dict(model=model, device=K.render(cfg(a), ios, True), netspoc=K.render(cfg(b), ios, False)) for a, b in cases]
    res = drcrun.run_many(ctx, jobs)
    rs = K.myers_ranges(ctx, [([' '.join(K.core_text(e, pool, ios)) for e in a],
                               [' '.join(K.core_text(e, pool, ios)) for e in b]) for a, b in cases])
    ms = [K.ranges_to_script(r, a, b) for r, (a, b) in zip(rs, cases)]

    def ent(toks):
        t = toks if ios else toks[1:]
        for li, lg in enumerate(logs):
            if lg and t[-len(lg):] == lg and t[:-len(lg)] in pool:
                return (pool.index(t[:-len(lg)]), li)
        return (pool.index(t), 0)

    def cent(e):
        if ios:
            act = {'permit': 0, 'deny': 1, 'remark': 2}[pool[e[0]][0]]
            return '{| i_act := %d; i_body := %d; i_log := %d |}' % (act, e[0], e[1])
        return '(%d, %d)' % e

    def parse(line):
        if '\\N ' in line:
            a, b = line.split('\\N ', 1)
            x, y = parse(a), parse(b)
            return ('IMove', x[1], y[1], y[2]) if ios else ('Mov', x[1], x[2], y[1], y[2])
        w = line.split()
        neg = w[0] == 'no'
        w = w[1:] if neg else w
        if ios:
            if not w[0].isdigit():
                raise ValueError(line)
            return ('INo', '%s%%N' % w[0]) if neg else ('INum', '%s%%N' % w[0], cent(ent(w[1:])))
        if not (w[0] == 'access-list' and w[2] == 'line'):
            raise ValueError(line)
        return ('Del' if neg else 'Ins', str(int(w[3]) - 1), cent(ent(w[4:])))

    def cscript(m):
        if ios:
            return C.clist(['(%s, %s)' % (t, cent(e)) for t, e in m])
        return K.c_script(m)

    items, used = [], []
    for i, (m, r) in enumerate(zip(ms, res)):
        if not any(t == 'Keep' for t, _ in m) or r['rc'] != 0:
            continue
        lines = [l for l in r['out'].split('\n') if l.strip()]
        if ios:
            lines = [l for l in lines if not l.startswith('ip access-list ')]
        try:
            impl = [parse(l) for l in lines]
        except (ValueError, IndexError):
            impl = None
        if impl is None:
            items.append('(%s, [%s])' % (cscript(m), 'INo 7%N' if ios else 'Ins 999 (0, 0)'))
        else:
            items.append('(%s, %s)' % (cscript(m), C.clist(['(%s)' % ' '.join(c) for c in impl])))
        used.append(i)
    mod = 'Cisco.IosAcl Cisco.IosAclCheck' if ios else 'Cisco.AsaAcl Cisco.AsaAclCheck'
    fn = 'ios_verdicts' if ios else 'core_verdicts'
    text = ('From Coq Require Import List NArith.\nFrom NA Require Import %s.\nImport ListNotations.\n'
            'Definition V := Eval vm_compute in %s %s.\nPrint V.\n' % (mod, fn, C.clist(items)))
    v = C.parse_verdict_list(ctx.coq_eval('core_%s' % model, text), 3 * len(items))
    bad = []
    for k, i in enumerate(used):
        cm, mm, im = v[3 * k:3 * k + 3]
        if cm or mm or im:
            bad.append(dict(model_vs_impl=cm, model_diverges=mm, impl_diverges=im, device=jobs[i]['device'],
                            netspoc=jobs[i]['netspoc'], stdout=res[i]['out'], ranges=rs[i], family=model))
    sample = dict(device=jobs[used[0]]['device'], netspoc=jobs[used[0]]['netspoc'], stdout=res[used[0]]['out']) if used else None
    if ios and not stepwise:
        # second compare: the ACL the device holds after the commands, against the same target
        from vlib.cisco import parse_coq_term
        text = ('From Coq Require Import List NArith.\nFrom NA Require Import %s.\nImport ListNotations.\n'
                'Definition V := Eval vm_compute in ios_finals %s.\nPrint V.\n' % (mod, C.clist(items)))
        fin = parse_coq_term(ctx.coq_eval('fin_%s' % model, text))
        jobs2, idx2 = [], []
        for k, i in enumerate(used):
            if v[3 * k + 2] or not fin[k]:
                continue
            ents = [(int(b), int(lg)) for (_a, (b, lg)) in fin[k]]
            jobs2.append(dict(model=model, device=K.render(cfg(ents), ios, True), netspoc=jobs[i]['netspoc']))
            idx2.append(i)
        for i, j2, r2 in zip(idx2, jobs2, drcrun.run_many(ctx, jobs2)):
            if r2['rc'] != 0 or r2['out'].strip():
                body = [l for l in r2['out'].split('\n') if l.strip() and not l.startswith('ip access-list ')]
                fnd = None
                if r2['rc'] == 0 and body and all('\\N ' in l for l in body) and ' remark ' in (jobs[i]['device'] + jobs[i]['netspoc']):
                    fnd = 'F-C02-2'        # remark lines present, result already equivalent, only moves
                bad.append(dict(model_vs_impl=0, model_diverges=0, impl_diverges=0, second_compare=r2['out'] or r2['err'][-300:], finding=fnd, device=jobs[i]['device'],
                                netspoc=jobs[i]['netspoc'], stdout=res[i]['out'], second_device=j2['device'], ranges=rs[i], family=model))
        ctx.notes.append('IOS line core: %d second compares on the resulting ACL' % len(jobs2))
    if stepwise:
        import random as _r
        npk = 24
        sem = []
        for bi, b in enumerate(pool):
            h = _r.Random('sem %d' % bi)
            pk = [p_ for p_ in range(npk) if h.random() < 0.3]
            if ios:
                sem.append('(%d, %s)' % (bi, C.clist([C.cnat(x) for x in pk])))
            else:
                sem.append('(%d, (%s, %s))' % (bi, C.cbool(b[0] == 'permit'), C.clist([C.cnat(x) for x in pk])))
        text = ('From Coq Require Import List NArith.\nFrom NA Require Import %s.\nImport ListNotations.\n'
                'Definition V := Eval vm_compute in step_verdicts %s %d %s.\nPrint V.\n' % (mod, C.clist(sem), npk, C.clist(items)))
        sv = C.parse_verdict_list(ctx.coq_eval('step_%s' % model, text), len(items))
        steps = []
        for k, i in enumerate(used):
            if sv[k]:
                a, b = cases[i]
                al = [K.core_text(e, pool, ios) for e in a]
                blx = [K.core_text(e, pool, ios) for e in b]
                known = None
                if moves_down_over_pending(al, blx, rs[i], ios):
                    known = 'F-C14-1'
                steps.append(dict(step=sv[k], finding=known, device=jobs[i]['device'], netspoc=jobs[i]['netspoc'],
                                  stdout=res[i]['out'], family=model))
        if not ios:
            # shape of every intermediate ACL: new lines inserted top-down, then old lines deleted bottom-up (Cisco/StepSafe.v)
            from vlib.cisco import parse_coq_term
            text = ('From Coq Require Import List NArith.\nFrom NA Require Import Cisco.AsaAcl Cisco.StepSafe.\nImport ListNotations.\n'
                    'Definition V := Eval vm_compute in shape_verdicts %s.\nPrint V.\n' % C.clist(items))
            shp = parse_coq_term(ctx.coq_eval('shape_%s' % model, text))
            nfree = 0
            for k, i in enumerate(used):
                mf, sc = shp[k]
                if mf == 'true':
                    nfree += 1
                    if int(sc):
                        bad.append(dict(model_vs_impl=0, model_diverges=0, impl_diverges=0, shape_lost=int(sc), device=jobs[i]['device'],
                                        netspoc=jobs[i]['netspoc'], stdout=res[i]['out'], ranges=rs[i], family=model))
            ctx.notes.append('ASA line core: %d of %d scripts are move-free; their intermediate ACLs all have the shape of Cisco/StepSafe.v' % (nfree, len(used)))
            ctx.move_free_scripts = nfree
        return len(used), bad, sample, steps
    return len(used), bad, sample


def main(ctx, prop):
    S = SETTINGS[prop]
    q = 0 if ctx.tier == 'quick' else 1
    st = ctx.proof_status()
    failing, breaks = [], []
    cov = {}
    if ctx.build_impl() and ctx.build_harness():
        allcases = []
        for ios in S['fam']:
            cases = CC.run_family(ctx, ios, S['n'][q], S['opts'], resume=S['resume'][q])
            fam = 'IOS' if ios else 'ASA'
            for c in cases:
                c['ios'] = ios
                r = c['run']
                if r['panic'] or r['rc'] == 'hang':
                    failing.append(dict(what='%s: drc crashed or hung on a generated configuration' % fam,
                                        replay=CC.replay_of(prop, c), finding=None, key='crash'))
                    continue
                if r['rc'] != 0:
                    breaks.append(dict(correspondence='generated %s input was rejected by the tool' % fam,
                                       case=CC.replay_of(prop, c)))
                    continue
                v = c['verdict']
                sec = c.get('second', {}).get('out', '')
                if prop in ('C01', 'C02'):
                    if v[0]:
                        failing.append(dict(what='%s: script cannot be executed: command %d refused (%s)' % (fam, v[0], CC.WHY.get(v[1])),
                                            replay=CC.replay_of(prop, c), finding=None, key='refused'))
                    elif v[2]:
                        failing.append(dict(what='%s: after executing the script the device is not equivalent to the target (%s)'
                                            % (fam, {1: 'bound ACLs differ', 2: 'routes differ', 3: 'generated object left unreferenced'}[v[2]]),
                                            replay=CC.replay_of(prop, c, dict(final=c['final'])),
                                            finding=('F-C01-1' if CC.classify(c, ios, ['spare_equal_generated_group', 'equal_groups_on_device']) else None),
                                            key='noneq%d' % v[2]))
                    elif sec.strip():
                        failing.append(dict(what='%s: a second compare of the result against the same target still reports changes' % fam,
                                            replay=CC.replay_of(prop, c, dict(final=c['final'], second_compare=sec)),
                                            finding=('F-C01-1' if CC.classify(c, ios, ['spare_equal_generated_group', 'equal_groups_on_device']) else None),
                                            key='second'))
                elif prop == 'C08':
                    if v[0]:
                        failing.append(dict(what='%s: command %d of the script is refused: %s' % (fam, v[0], CC.WHY.get(v[1])),
                                            replay=CC.replay_of(prop, c), finding=None, key='refused%d' % v[1]))
                elif prop == 'C07':
                    if len(v) > 6 and v[6]:
                        failing.append(dict(what='%s: the script names an object outside Netspoc\'s scope (premise of C07_frame_every_prefix fails)%s'
                                            % (fam, '; a strict device refuses command %d (%s)' % (v[0], CC.WHY.get(v[1])) if v[0] else ''),
                                            replay=CC.replay_of(prop, c, dict(unmanaged=c['info'])), finding=None, key='names-unmanaged'))
                    elif v[3]:
                        failing.append(dict(what='%s: command %d changes configuration outside Netspoc\'s scope' % (fam, v[3]),
                                            replay=CC.replay_of(prop, c, dict(unmanaged=c['info'])), finding=None, key='frame'))
                elif prop == 'C14':
                    if v[4] or v[5]:
                        hits = c14_findings(ctx, c, ios) if v[4] else set()
                        fid = None
                        if v[4] and hits:
                            fid = sorted(hits)[0]
                        what = ('%s: after command %d a packet on which old and new ACL agree gets another verdict' % (fam, v[4])
                                if v[4] else '%s: after command %d a destination routed before and after has no route' % (fam, v[5]))
                        failing.append(dict(what=what, replay=CC.replay_of(prop, c), finding=fid, key='step%d' % bool(v[4])))
                elif prop == 'C10':
                    if v[0] == 0:
                        for rr in c.get('resume', []):
                            if rr['rc'] != 0 or rr['verdict'][0] or rr['verdict'][2] or rr['third'].strip():
                                why = ('second run rejected the state' if rr['rc'] != 0 else
                                       'command %d of the resumed run refused (%s)' % (rr['verdict'][0], CC.WHY.get(rr['verdict'][1])) if rr['verdict'][0] else
                                       'resumed run does not reach the target' if rr['verdict'][2] else 'third compare still reports changes')
                                failing.append(dict(what='%s: cut after %d commands: %s' % (fam, rr['k'], why),
                                                    replay=CC.replay_of(prop, c, dict(cut_after=rr['k'], state='\n'.join(rr['state']),
                                                                                     resumed_script=rr['run']['out'], third_compare=rr['third'])),
                                                    finding=('F-C10-2' if not ios and rr['rc'] == 0 and not rr['verdict'][0] and rr['verdict'][2] in (0, 3)
                                                             and CC.classify(c, ios, ['spare_equal_generated_group', 'equal_groups_on_device']) else None),
                                                    key='resume'))
                                break
            allcases += cases
        extra = {}
        if S.get('core'):
            ncore, bad, sample = core_check(ctx, S['core'][q], ios=(prop == 'C02'))
            extra['core_cases'] = ncore
            extra['core_mismatches'] = len(bad)
            for b in bad:
                if b.get('second_compare'):
                    failing.append(dict(what='ACL line core: a second compare of the resulting ACL against the same target still reports changes',
                                        replay=dict(property=prop, model=b['family'], command='drc -q device code/router; drc -q device2 code/router',
                                                    files=dict(device=b['device'], netspoc=b['netspoc'], device2=b['second_device']), stdout=b['stdout'],
                                                    second_compare=b['second_compare']),
                                        finding=b.get('finding'), key='core-second'))
                elif b['impl_diverges']:
                    failing.append(dict(what='ACL line core: the implementation\'s script does not turn the device ACL into (an equivalent of) the target ACL',
                                        replay=dict(property=prop, model=b['family'], command='drc -q device code/router',
                                                    files=dict(device=b['device'], netspoc=b['netspoc']), stdout=b['stdout']),
                                        finding=None, key='core'))
                else:
                    breaks.append(dict(correspondence='Gallina ACL core (diff_asa / diff_ios) vs diffASAACLs / diffIOSACLs', case=b))
        if prop == 'C14':
            for fam_ios in (False, True):
                ncore, bad, sample, steps = core_check(ctx, 400 if q == 0 else 6000, ios=fam_ios, stepwise=True)
                for b_ in bad:
                    if b_.get('shape_lost'):
                        breaks.append(dict(correspondence='ASA line core: a move-free script leaves the order "insert top-down, delete bottom-up" at step %d '
                                                          '(hypothesis of C14_acl_insert_then_delete_safe)' % b_['shape_lost'], case=b_))
                    if b_['impl_diverges']:
                        failing.append(dict(what='%s line core: the script ends in an ACL that filters differently from the target' % b_['family'],
                                            replay=dict(property=prop, model=b_['family'], command='drc -q device code/router',
                                                        files=dict(device=b_['device'], netspoc=b_['netspoc']), stdout=b_['stdout']),
                                            finding=None, key='corefinal'))
                extra['core_stepwise_cases_%s' % ('IOS' if fam_ios else 'ASA')] = ncore
                extra['core_stepwise_unsafe_%s' % ('IOS' if fam_ios else 'ASA')] = len(steps)
                if not fam_ios:
                    extra['core_move_free_scripts_ASA'] = getattr(ctx, 'move_free_scripts', None)
                for st_ in steps:
                    failing.append(dict(what='%s line core: after command %d a packet on which old and new ACL agree gets another verdict'
                                        % (st_['family'], st_['step']),
                                        replay=dict(property=prop, model=st_['family'], command='drc -q device code/router',
                                                    files=dict(device=st_['device'], netspoc=st_['netspoc']), stdout=st_['stdout'],
                                                    oracle='step_scan of Cisco.%sAclCheck' % ('Ios' if st_['family'] == 'IOS' else 'Asa')),
                                        finding=st_['finding'], key='corestep'))
        if prop in ('C01', 'C02', 'C14', 'C07'):
            # route commands against Cisco/Routes.v (exact), for both families; IOS with VRFs, also VRFs the target does not mention (C07)
            from vlib import routecheck
            nr, rbad = routecheck.check(ctx, 60 if q == 0 else 1500)
            extra['route_cases'] = nr
            for b in rbad:
                if b.get('impl_diverges'):
                    failing.append(dict(what='%s routes: the printed route commands are refused by the routing table or do not end in the target routes plus the untouched routes of VRFs the target does not mention' % b['family'],
                                        replay=dict(property=prop, model=b['family'], command='drc -q device code/router',
                                                    files=dict(device=b['device'], netspoc=b['netspoc']), stdout=b.get('stdout')), finding=None, key='routes'))
                else:
                    breaks.append(dict(correspondence='Gallina route model (Cisco/Routes.v diff_croutes) vs cisco.diffRoutes', case=b))
        if prop == 'C14':
            # whole ASA configurations with object-groups: order of inserts and deletes per ACL, group-aware search on a broken order
            from vlib import c14groups
            ng, fl, bl = c14groups.check(ctx, 70 if q == 0 else 2000)
            failing += fl
            breaks += bl
            extra['asa_group_scripts_order_checked'] = ng
            # Linux routes: Linux/Model.v diff_routes against linux.diffRoutes on nested destinations, address coverage after every command
            from vlib import linuxroutes
            nl, fl, bl, nt = linuxroutes.check(ctx, 150 if q == 0 else 4000)
            failing += fl
            breaks += bl
            extra['linux_route_cases'] = nl
            extra['linux_route_scripts_nonempty'] = nt
        if prop == 'C10':
            extra['resumed_prefix_states'] = sum(len(c.get('resume', [])) for c in allcases)
            # NSX and PAN-OS: every cut of the request / command sequence, on the strict models of C04 / C03
            from vlib import resume_ext
            for fn, args in ((resume_ext.nsx_resume, (50, 14) if q == 0 else (900, 350)), (resume_ext.panos_resume, (40, 8) if q == 0 else (900, 350))):
                fl, bl, st2 = fn(ctx, *args)
                for f in fl:
                    failing.append(dict(what=f['what'], replay=dict(f['replay'], property=prop), finding=f.get('finding'), key=f['what'][:60]))
                breaks += bl
                extra.update(st2)
        if prop == 'C07':
            # PAN-OS: nothing outside the targeted vsys; NSX: no object without the Netspoc prefix (simulated manager with foreign objects)
            from vlib import scope_ext
            f1, s1 = scope_ext.panos_scope(ctx, 60 if q == 0 else 1500)
            f2, s2 = scope_ext.nsx_scope(ctx, 24 if q == 0 else 400)
            for f in f1 + f2:
                failing.append(dict(what=f['what'], replay=dict(f['replay'], property=prop), finding=None, key=f['what'][:40]))
            extra.update(s1)
            extra.update(s2)
        if prop == 'C08':
            # PAN-OS and NSX: every emitted command / request is accepted by the strict models of C03 / C04
            from vlib import c03, c04
            for mod, label in ((c03, 'PAN-OS'), (c04, 'NSX')):
                fl, bl, cv = mod.evaluate(ctx, 60 if q == 0 else 1500)
                for f in fl:
                    if f.get('key', '').startswith('refused'):
                        failing.append(dict(what='%s: %s' % (label, f['what']), replay=dict(f['replay'], property=prop),
                                            finding={'F-C03-2': 'F-C08-1'}.get(f.get('finding')),
                                            key='%s-%s' % (label, f['key'])))
                breaks += bl
                extra['%s_scripts' % label.replace('-', '').lower()] = cv.get('traces_validated_against_impl')
        if prop in ('C01', 'C08', 'C10'):
            # ASA crypto maps, crypto ACLs, transform-sets, ipsec-proposals on Cisco/Vpn.v
            from vlib import asavpn
            nv = (60 if q == 0 else 1500)
            vp = asavpn.family(ctx, nv, resume=({'C10': 12}.get(prop, 0) if q == 0 else {'C10': 300}.get(prop, 0)))
            key = {'C01': 'conv', 'C08': 'refused', 'C10': 'resume'}[prop]
            for f in vp[key]:
                failing.append(dict(what=f['what'], replay=dict(f['replay'], property=prop), finding=f.get('finding'), key='vpn-' + f['what'][:50]))
            if prop == 'C01':
                for f in vp['refused']:
                    failing.append(dict(what=f['what'], replay=dict(f['replay'], property=prop), finding=None, key='vpn-refused'))
            breaks += vp['breaks']
            extra['asa_crypto_cases'] = vp['stats']
            # ASA tunnel-groups named by the peer address (IPv4 / IPv6), users, their group-policies, filter / split-tunnel ACLs and address pools on Cisco/Tunnel.v
            from vlib import asatunnel
            tp = asatunnel.family(ctx, nv, resume=({'C10': 12}.get(prop, 0) if q == 0 else {'C10': 300}.get(prop, 0)))
            for f in tp[key]:
                failing.append(dict(what=f['what'], replay=dict(f['replay'], property=prop), finding=f.get('finding'), key='tg-' + f['what'][:50]))
            if prop == 'C01':
                for f in tp['refused']:
                    failing.append(dict(what=f['what'], replay=dict(f['replay'], property=prop), finding=None, key='tg-refused'))
            breaks += tp['breaks']
            extra['asa_tunnel_group_cases'] = tp['stats']
        cov = CC.coverage(allcases, S['fam'][0], extra)
        cov['families'] = ['IOS' if f else 'ASA' for f in S['fam']]
    cov = C.proof_coverage(ctx, cov)
    assumptions = [
        'strict device semantics of coq/theories/Cisco/Device.v (a model of ASA/IOS written from the property text and the '
        'repository\'s comments; real devices are not available)',
        'the harness parses the printed script back into device commands (vlib/cisco.py parse_cmd); an unknown command counts as refused',
        'ASA crypto maps with crypto ACLs, transform-sets and ipsec-proposals are executed on a separate device model (Cisco/Vpn.v, no theorem); '
        'tunnel-groups named by the peer address and users (username NAME nopassword / attributes) with the group-policies they reference and the ACLs (vpn-filter, '
        'split-tunnel-network-list) and address pools of those on a third device model (Cisco/Tunnel.v; lemmas only: oracle = equality of the expanded objects, prefix states, '
        'frame of a sub-mode line, references only to existing objects); certificate maps, tunnel-group-maps, named (non-address) tunnel-groups and webvpn are not generated (modelled: no; verified: no)',
    ]
    return C.finish(ctx, failing, breaks, cov, assumptions)
