"""C06, C09, C11, C15, C17 — session properties, decided on real runs of
drc / do-approve against the device simulators with fault plans, compared with
the Coq dialogue interpreter (Session/Model.v) and judged by the Coq trace
predicates."""
import json, re, urllib.parse
from vlib import common as C
from vlib import session as S

CODE = dict(login=1, sync=2, set=3, read=4, name=5, conf=6, enter=7, prep=8, change=9, change2=10, leave=11,
            guard=12, guarddlg=13, unguard=14, save=15, commit=16, poll=17, status=18, exit=19, other=20)
CODE['guard-dialog'] = 13

# is the reply to a request of this class inspected by the tool (junk aborts)?
CHECKED = {
    'ASA': dict(name=True, conf=True, enter=True, change=True, change2=True, leave=True, save=True),
    'IOS': dict(name=True, conf=True, guard=True, unguard=True, change=True, change2=True, save=True),
    'Linux': dict(name=True, conf=True, change=True, change2=True, status=True),
    'PAN-OS': dict(login=True, name=True, conf=True, change=True, commit=True, poll=True),
    'NSX': dict(login=True, conf=True, change=True),
}
HTTP_KINDS = ['status500', 'eof', 'malformed', 'failure', 'stall']
JUNK_KINDS = ('error', 'garbage', 'warnerr', 'status500', 'malformed', 'failure', 'jobfail')


def refine(fam, tr):
    """Refine 'read'/'sync' into name / conf requests; mark second halves of joined lines."""
    if fam in S.HTTP_FAMS:
        return [list(e) for e in tr]
    out = []
    for i, e in enumerate(tr):
        n, c, text = e[0], e[1], e[2]
        t = text[3:] if text.startswith('do ') else text
        if fam == 'ASA':
            if t == 'show hostname':
                c = 'name'
            elif t == 'write term':
                c = 'conf'
        elif fam == 'IOS':
            if c == 'sync' and i > 0 and tr[i - 1][2] == 'sh ver':
                c = 'name'
            elif t == 'sh run':
                c = 'conf'
        else:
            if t == 'hostname -s':
                c = 'name'
            elif t in ('ip route show', 'iptables-save', 'which iptables-restore'):
                c = 'conf'
        out.append([n, c, text] + e[3:])
    return out


def joined_pairs(ctx, fam, device_text, target):
    """The two-line script elements of the pure pipeline for this device/target pair."""
    from vlib import drcrun
    if fam in S.HTTP_FAMS:
        return set()
    if fam == 'Linux':
        device_text = ''.join('ip route add ' + l + '\n' for l in S.LINUX_ROUTES.splitlines()) + S.LINUX_IPT
    r = drcrun.run_drc(ctx, 880000 + abs(hash((fam, target))) % 10000, fam, device_text, target)
    pairs = set()
    for line in r['out'].split('\n'):
        if '\\N ' in line:
            a, b = line.split('\\N ', 1)
            pairs.add((a, b))
    return pairs


def plan_from(fam, base):
    chk = CHECKED[fam]
    return [(CODE[e[1]], bool(chk.get(e[1], False))) for e in base if e[1] != 'exit']


def c_scase(plan, faults, obs, ok):
    return '{| s_plan := %s; s_faults := %s; s_obs := %s; s_ok := %s |}' % (
        C.clist(['(%d, %s)' % (c, C.cbool(k)) for c, k in plan]),
        C.clist(['(%d, %d)' % f for f in faults]), C.clist([str(x) for x in obs]), C.cbool(ok))


def eval_scases(ctx, name, items, shard=400):
    out = []
    for s in range(0, len(items), shard):
        text = ('From Coq Require Import List.\nFrom NA Require Import Session.Model Session.Check.\nImport ListNotations.\n'
                'Definition V := Eval vm_compute in sverdicts %s.\nPrint V.\n' % C.clist(items[s:s + shard]))
        v = C.parse_verdict_list(ctx.coq_eval('%s_%d' % (name, s), text), 6 * len(items[s:s + shard]))
        out += [v[i:i + 6] for i in range(0, len(v), 6)]
    return out


def prepare(fam, r):
    tr = refine(fam, r['transcript'])
    return tr


def baseline(ctx, fam, front, mode, **kw):
    r = S.run_session(ctx, 900000 + abs(hash((fam, front, mode))) % 1000, fam, front, mode, **kw)
    dev = kw.get('device') if kw.get('device') is not None else S.TARGETS[fam][0]
    tgt = kw.get('target') if kw.get('target') is not None else S.TARGETS[fam][1]
    pairs = joined_pairs(ctx, fam, dev, tgt)
    r['pairs'] = pairs
    r['tr'] = observe(fam, r, pairs)
    return r


def observe(fam, r, pairs):
    tr = refine(fam, r['transcript'])
    if fam in S.HTTP_FAMS:
        # retries of the request that hit a dead connection are the same request
        dead = [f['at'] for f in r['faults'] if f['kind'] in ('eof', 'stall')]
        if dead:
            k = min(dead)
            tr = [e for e in tr if e[0] <= k or e[2] != next((x[2] for x in tr if x[0] == k), None)]
    for i in range(1, len(tr)):
        if tr[i][1] == 'change' and tr[i - 1][1] in ('change',) and (tr[i - 1][2], tr[i][2]) in pairs:
            tr[i][1] = 'change2'
    return [e for e in tr if e[1] != 'exit']


def status_of(r):
    st = r['files'].get('status/router')
    try:
        st = json.loads(st) if st else {}
    except ValueError:
        st = {}
    hist = [l for l in r['files'].get('history/router', '').split('\n') if l.strip()]
    return st, (hist[-1][20:] if hist else '')


def secret_leaks(r, secrets):
    """Places where a secret occurs plain or URL-encoded."""
    hits = []
    blobs = dict(r['files'])
    blobs['<stdout>'] = r['out']
    blobs['<stderr>'] = r['err']
    for s in secrets:
        forms = {s, urllib.parse.quote_plus(s), urllib.parse.quote(s, safe='')}
        for name, text in blobs.items():
            for f in forms:
                if f and f in text:
                    hits.append((name, f))
    return hits


def fault_jobs(fam, front, mode, nlines, kinds, step=1, extra=None):
    jobs = []
    for k in range(1, nlines + 1, step):
        for kind in kinds:
            if kind == 'stall' and k % 5 != 3:
                continue
            j = dict(fam=fam, front=front, mode=mode, faults=[dict(at=k, kind=kind)], timeout_s=1)
            j.update(extra or {})
            jobs.append(j)
    return jobs
