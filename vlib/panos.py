"""PAN-OS: generator of vsys pairs, XML rendering, parser of the emitted XML-API
commands, terms for Panos/Device.v."""
import re
import xml.etree.ElementTree as ET
from vlib import common as C

S = C.cbytes
DEV = 'localhost.localdomain'
ADDRS = ['IP_10.1.1.%d' % i for i in range(10, 20)] + ['NET_10.1.%d.0_24' % i for i in range(2, 8)]
SVCS = ['tcp 80', 'tcp 443', 'udp 123', 'tcp 22', 'udp 53', 'tcp 8080-8090']


def addr_value(name, variant=0):
    if name.startswith('IP_'):
        ip = name[3:]
        return '%s/32' % ip if not variant else '%s/31' % ip
    m = re.match(r'NET_(\d+\.\d+\.\d+\.\d+)_(\d+)', name)
    return '%s/%d' % (m.group(1), int(m.group(2)) - (variant and 1))


# ------------------------------------------------------------------ model of a vsys (python side)
def new_vsys():
    return dict(rules=[], addr={}, grp={}, svc={}, sgrp={})


def used_names(v):
    a, s = set(), set()
    for r in v['rules']:
        a |= set(r['src']) | set(r['dst'])
        s |= set(r['srv'])
    for g, ms in v['grp'].items():
        if g in a:
            a |= set(ms)
    for g, ms in v['sgrp'].items():
        if g in s:
            s |= set(ms)
    return a, s


def gen_target(rng, nrules=None):
    v = new_vsys()
    ngrp = rng.choice([0, 1, 2, 3])
    pool = list(ADDRS)
    for i in range(ngrp):
        v['grp']['g%d' % i] = rng.sample(pool, rng.choice([1, 2, 3, 4, 6]))
    if rng.random() < 0.4:
        v['sgrp']['sg0'] = rng.sample(SVCS, rng.choice([1, 2, 3]))
    n = nrules if nrules is not None else rng.choice([0, 1, 2, 3, 4, 5, 6])
    for i in range(n):
        def side():
            x = rng.random()
            if x < 0.2:
                return ['any']
            if x < 0.55 and v['grp']:
                return [rng.choice(sorted(v['grp']))]
            return rng.sample(pool, rng.choice([1, 1, 2, 3]))
        x = rng.random()
        if x < 0.2:
            srv = ['any']
        elif x < 0.35 and v['sgrp']:
            srv = ['sg0']
        elif x < 0.45:
            srv = ['application-default']
        else:
            srv = rng.sample(SVCS, rng.choice([1, 1, 2]))
        v['rules'].append(dict(name='r%d' % (i + 1), action=rng.choice(['allow', 'allow', 'deny']), frm=rng.choice(['z1', 'z2']), to=rng.choice(['z2', 'z3']),
                               src=side(), dst=side(), srv=srv, extra=''))
    finish_objects(v)
    return v


def finish_objects(v, keep_addr=None, keep_svc=None):
    """Define exactly the addresses / services that are referenced (plus keep_*)."""
    a, s = used_names(v)
    v['grp'] = dict((g, ms) for g, ms in v['grp'].items() if g in a or (keep_addr and g in keep_addr))
    v['sgrp'] = dict((g, ms) for g, ms in v['sgrp'].items() if g in s or (keep_svc and g in keep_svc))
    a, s = used_names(v)
    for g, ms in v['grp'].items():
        a |= set(ms)
    for g, ms in v['sgrp'].items():
        s |= set(ms)
    old_a, old_s = v['addr'], v['svc']
    v['addr'] = dict((n, old_a.get(n, addr_value(n))) for n in sorted(a) if n not in v['grp'] and n != 'any')
    v['svc'] = dict((n, old_s.get(n, n)) for n in sorted(s) if n not in v['sgrp'] and n not in ('any', 'application-default'))
    for n in (keep_addr or []):
        if n not in v['grp'] and n in ADDRS:
            v['addr'].setdefault(n, addr_value(n))
    for n in (keep_svc or []):
        if n not in v['sgrp']:
            v['svc'].setdefault(n, n)


def copy_vsys(v):
    return dict(rules=[dict(r, src=list(r['src']), dst=list(r['dst']), srv=list(r['srv'])) for r in v['rules']],
                addr=dict(v['addr']), grp=dict((g, list(ms)) for g, ms in v['grp'].items()), svc=dict(v['svc']),
                sgrp=dict((g, list(ms)) for g, ms in v['sgrp'].items()))


def mutate(rng, tgt):
    """Device state derived from the target by edits; returns (device, list of edit names)."""
    d = copy_vsys(tgt)
    edits = []
    keep_a, keep_s = set(), set()
    k = rng.choice([0, 1, 1, 2, 2, 3, 4])
    for _ in range(k):
        e = rng.choice(['del_rule', 'ins_rule', 'move_rule', 'rename_grp', 'grp_add', 'grp_del', 'split_grp', 'share_grp', 'grp_to_list', 'list_to_grp',
                        'addr_value', 'rule_member', 'rule_srv', 'rename_rule', 'spare_obj', 'sgrp_change', 'extra_attr', 'action', 'clash_rule', 'clash_grp',
                        'svc_value', 'many_del', 'spare_grp', 'clash_suffix', 'clash_grp_suffix', 'split_similar', 'split_similar'])
        rules = d['rules']
        if e == 'del_rule' and rules:
            rules.pop(rng.randrange(len(rules)))
        elif e == 'ins_rule':
            rules.insert(rng.randrange(len(rules) + 1), dict(name='x%d' % rng.randrange(100), action='allow', frm='z1', to='z2',
                                                              src=[rng.choice(ADDRS)], dst=rng.sample(ADDRS, 2), srv=[rng.choice(SVCS)], extra=''))
        elif e == 'move_rule' and len(rules) > 1:
            r = rules.pop(rng.randrange(len(rules)))
            rules.insert(rng.randrange(len(rules) + 1), r)
        elif e == 'rename_grp' and d['grp']:
            g = rng.choice(sorted(d['grp']))
            new = 'dg%d' % rng.randrange(50)
            if new not in d['grp']:
                d['grp'][new] = d['grp'].pop(g)
                for r in rules:
                    r['src'] = [new if x == g else x for x in r['src']]
                    r['dst'] = [new if x == g else x for x in r['dst']]
        elif e == 'grp_add' and d['grp']:
            g = rng.choice(sorted(d['grp']))
            for a in rng.sample(ADDRS, rng.choice([1, 2, 5])):
                if a not in d['grp'][g]:
                    d['grp'][g].append(a)
        elif e in ('grp_del', 'many_del') and d['grp']:
            g = rng.choice(sorted(d['grp']))
            n = 1 if e == 'grp_del' else 3
            while len(d['grp'][g]) > 1 and n:
                d['grp'][g].pop(rng.randrange(len(d['grp'][g])))
                n -= 1
        elif e == 'split_grp' and d['grp']:
            # two rules share a group in the target; the device has two groups of equal content
            g = rng.choice(sorted(d['grp']))
            users = [(r, f) for r in rules for f in ('src', 'dst') if r[f] == [g]]
            if len(users) > 1:
                new = g + 'b'
                d['grp'][new] = list(d['grp'][g])
                r, f = users[-1]
                r[f] = [new]
        elif e == 'share_grp' and len(d['grp']) > 1:
            a, b = rng.sample(sorted(d['grp']), 2)
            for r in rules:
                for f in ('src', 'dst'):
                    if r[f] == [b]:
                        r[f] = [a]
        elif e == 'grp_to_list' and d['grp']:
            g = rng.choice(sorted(d['grp']))
            for r in rules:
                for f in ('src', 'dst'):
                    if r[f] == [g] and rng.random() < 0.7:
                        r[f] = list(d['grp'][g])
        elif e == 'list_to_grp' and rules:
            r = rng.choice(rules)
            f = rng.choice(['src', 'dst'])
            if r[f] != ['any'] and r[f][0] not in d['grp']:
                new = 'lg%d' % rng.randrange(50)
                if new not in d['grp']:
                    d['grp'][new] = list(r[f])
                    r[f] = [new]
        elif e == 'addr_value':
            a, _ = used_names(d)
            cand = sorted(x for x in a if x in ADDRS)
            if cand:
                n = rng.choice(cand)
                d['addr'][n] = addr_value(n, 1)
        elif e == 'svc_value':
            _, s = used_names(d)
            cand = sorted(x for x in s if x in SVCS)
            if cand:
                n = rng.choice(cand)
                if rng.random() < 0.5:
                    d['svc'][n] = n + '1'
                else:
                    d['svc'][n] = ('udp' if n.startswith('tcp') else 'tcp') + n[3:]          # same name, same port, the other protocol
        elif e == 'rule_member' and rules:
            r = rng.choice(rules)
            f = rng.choice(['src', 'dst'])
            if r[f] != ['any'] and r[f][0] not in d['grp']:
                if rng.random() < 0.5 and len(r[f]) > 1:
                    r[f].pop(rng.randrange(len(r[f])))
                else:
                    for a in rng.sample(ADDRS, rng.choice([1, 2, 4])):
                        if a not in r[f]:
                            r[f].append(a)
        elif e == 'rule_srv' and rules:
            r = rng.choice(rules)
            r['srv'] = rng.choice([['any'], [rng.choice(SVCS)], rng.sample(SVCS, 2)])
        elif e == 'rename_rule' and rules:
            rng.choice(rules)['name'] = 'n%d' % rng.randrange(100)
        elif e == 'spare_obj':
            keep_a.add(rng.choice(ADDRS))
            keep_s.add(rng.choice(SVCS))
        elif e == 'spare_grp':
            new = 'sp%d' % rng.randrange(9)
            if new not in d['grp']:
                d['grp'][new] = rng.sample(ADDRS, 2)
                keep_a.add(new)
        elif e == 'sgrp_change' and d['sgrp']:
            g = sorted(d['sgrp'])[0]
            if rng.random() < 0.5 and len(d['sgrp'][g]) > 1:
                d['sgrp'][g].pop()
            else:
                x = rng.choice(SVCS)
                if x not in d['sgrp'][g]:
                    d['sgrp'][g].append(x)
        elif e == 'extra_attr' and rules:
            rng.choice(rules)['extra'] = rng.choice(['<description>x</description>', '<source-user><member>any</member></source-user>', '<tag><member>t1</member></tag>'])
        elif e == 'action' and rules:
            r = rng.choice(rules)
            r['action'] = 'deny' if r['action'] == 'allow' else 'allow'
        elif e == 'clash_rule' and tgt['rules']:
            # a rule on the device carries the name of a different rule of the target
            nm = rng.choice(tgt['rules'])['name']
            if all(r['name'] != nm for r in rules):
                rules.insert(rng.randrange(len(rules) + 1), dict(name=nm, action='deny', frm='z9', to='z2', src=['any'], dst=[rng.choice(ADDRS)], srv=['any'], extra=''))
        elif e == 'clash_suffix' and len(tgt['rules']) > 1:
            # the device has a different rule x; the target has x and x-1
            a, b = rng.sample(range(len(tgt['rules'])), 2)
            nm = tgt['rules'][a]['name']
            old = tgt['rules'][b]['name']
            if all(r['name'] != nm for r in rules) and not nm.endswith('-1') and not old.endswith('-1'):
                rules.insert(rng.randrange(len(rules) + 1), dict(name=nm, action='deny', frm='z9', to='z2', src=['any'], dst=[rng.choice(ADDRS)], srv=['any'], extra=''))
                tgt['rules'][b]['name'] = nm + '-1'
                for r in rules:
                    if r['name'] == old:
                        r['name'] = 'k%d' % rng.randrange(100)
        elif e == 'clash_grp_suffix' and len(tgt['grp']) > 1:
            a, b = rng.sample(sorted(tgt['grp']), 2)
            if not a.endswith('-1') and not b.endswith('-1') and a + '-1' not in tgt['grp']:
                # target: groups a and a-1; device: group a with other content
                tgt['grp'][a + '-1'] = tgt['grp'].pop(b)
                for r in tgt['rules']:
                    for f in ('src', 'dst'):
                        r[f] = [a + '-1' if x == b else x for x in r[f]]
                if b in d['grp']:
                    nn = 'q%d' % rng.randrange(100)
                    d['grp'][nn] = d['grp'].pop(b)
                    for r in rules:
                        for f in ('src', 'dst'):
                            r[f] = [nn if x == b else x for x in r[f]]
                d['grp'][a] = rng.sample(ADDRS, 3)
        elif e == 'split_similar' and tgt['grp'] and len(tgt['rules']) > 1:
            # device: two rules share a group; target: one of them uses a grown copy of it
            g = rng.choice(sorted(tgt['grp']))
            i, j = sorted(rng.sample(range(len(tgt['rules'])), 2))
            if rng.random() < 0.3:
                i, j = j, i
            ri, rj = tgt['rules'][i], tgt['rules'][j]
            di = [r for r in rules if r['name'] == ri['name']]
            dj = [r for r in rules if r['name'] == rj['name']]
            new = g + 'x'
            if di and dj and new not in tgt['grp'] and g in d['grp']:
                f1, f2 = rng.choice(['src', 'dst']), rng.choice(['src', 'dst'])
                extra = [a for a in rng.sample(ADDRS, rng.choice([1, 2])) if a not in tgt['grp'][g]]
                tgt['grp'][new] = list(tgt['grp'][g]) + extra
                ri[f1] = [new]
                rj[f2] = [g]
                di[0][f1] = [g]
                dj[0][f2] = [g]
                for a in extra:
                    tgt['addr'].setdefault(a, addr_value(a))
        elif e == 'clash_grp' and tgt['grp']:
            # a group on the device carries the name of a group of the target with other content
            nm = rng.choice(sorted(tgt['grp']))
            d['grp'][nm] = rng.sample(ADDRS, 3)
        else:
            continue
        edits.append(e)
    names = set()
    for r in d['rules']:          # rule names on a device are unique
        while r['name'] in names:
            r['name'] += 'u'
        names.add(r['name'])
    finish_objects(d, keep_a, keep_s)
    return d, edits


# ------------------------------------------------------------------ XML
def esc(s):
    return s.replace('&', '&amp;').replace('<', '&lt;')


def members(l):
    return ''.join('<member>%s</member>' % esc(x) for x in l)


def svc_xml(val):
    m = re.match(r'(tcp|udp) (\S+)$', val)
    return '<protocol><%s><port>%s</port></%s></protocol>' % (m.group(1), m.group(2), m.group(1))


def rule_xml(r):
    return ('<entry name="%s"><action>%s</action><from><member>%s</member></from><to><member>%s</member></to><source>%s</source>'
            '<destination>%s</destination><service>%s</service><application><member>any</member></application>'
            '<rule-type>interzone</rule-type><log-start>yes</log-start><log-end>yes</log-end>%s</entry>'
            % (esc(r['name']), r['action'], r['frm'], r['to'], members(r['src']), members(r['dst']), members(r['srv']), r.get('extra', '')))


def vsys_xml(v, name='vsys1', display='managed by Netspoc'):
    return ('<entry name="%s"><display-name>%s</display-name><rulebase><security><rules>%s</rules></security></rulebase><address>%s</address>'
            '<address-group>%s</address-group><service>%s</service><service-group>%s</service-group></entry>'
            % (name, display, ''.join(rule_xml(r) for r in v['rules']),
               ''.join('<entry name="%s"><ip-netmask>%s</ip-netmask></entry>' % (esc(n), val) for n, val in v['addr'].items()),
               ''.join('<entry name="%s"><static>%s</static></entry>' % (esc(g), members(ms)) for g, ms in v['grp'].items()),
               ''.join('<entry name="%s">%s</entry>' % (esc(n), svc_xml(val)) for n, val in v['svc'].items()),
               ''.join('<entry name="%s"><members>%s</members></entry>' % (esc(g), members(ms)) for g, ms in v['sgrp'].items())))


def config_xml(vl):
    """vl: list of (name, vsys)"""
    return '<config><devices><entry name="%s"><vsys>%s</vsys></entry></devices></config>\n' % (DEV, ''.join(vsys_xml(v, n) for n, v in vl))


# ------------------------------------------------------------------ canonical values (what the oracle compares)
IGN_ANY = ('source-user', 'category', 'source-hip', 'destination-hip')


def canon(el):
    """canonical text of an XML element (tag, text, children in order)"""
    t = (el.text or '').strip()
    return '<%s>%s%s</%s>' % (el.tag, t, ''.join(canon(c) for c in el), el.tag)


def rule_from_el(el):
    r = dict(name=el.get('name'), src=[], dst=[], srv=[])
    misc = []
    for c in el:
        if c.tag in ('source', 'destination', 'service'):
            r[{'source': 'src', 'destination': 'dst', 'service': 'srv'}[c.tag]] = [m.text or '' for m in c.findall('member')]
        elif c.tag in IGN_ANY and canon(c) == '<%s><member>any</member></%s>' % (c.tag, c.tag):
            continue
        elif c.tag == 'APPEND':
            continue
        else:
            misc.append(canon(c))
    r['misc'] = ''.join(sorted(misc))
    return r


def rule_misc(r):
    el = ET.fromstring(rule_xml(r))
    return rule_from_el(el)['misc']


def c_rule(name, misc, src, dst, srv):
    return '{| r_name := %s; r_misc := %s; r_src := %s; r_dst := %s; r_srv := %s |}' % (
        S(name), S(misc), C.clist([S(x) for x in src]), C.clist([S(x) for x in dst]), C.clist([S(x) for x in srv]))


def c_vsys(v):
    return ('{| v_rules := %s; v_addr := %s; v_grp := %s; v_svc := %s; v_sgrp := %s |}' % (
        C.clist([c_rule(r['name'], rule_misc(r), sorted(r['src']), sorted(r['dst']), sorted(r['srv'])) for r in v['rules']]),
        C.clist(['(%s, %s)' % (S(n), S('<ip-netmask>%s</ip-netmask>' % val)) for n, val in v['addr'].items()]),
        C.clist(['(%s, %s)' % (S(g), C.clist([S(x) for x in sorted(ms)])) for g, ms in v['grp'].items()]),
        C.clist(['(%s, %s)' % (S(n), S(svc_xml(val))) for n, val in v['svc'].items()]),
        C.clist(['(%s, %s)' % (S(g), C.clist([S(x) for x in ms])) for g, ms in v['sgrp'].items()])))


# ------------------------------------------------------------------ commands
CMD = re.compile(r"^action=(\w+)&type=config&xpath=(.*?)(?:&element=(.*?))?(?:&where=before&dst=(.*))?$", re.S)
VS = re.compile(r"^/config/devices/entry\[@name='[^']*'\]/vsys/entry\[@name='([^']*)'\](.*)$", re.S)


def inner(xmltext):
    return ET.fromstring('<x>%s</x>' % xmltext)


def parse_cmd(line):
    """-> (vsys, Coq op term) or raises ValueError"""
    m = CMD.match(line)
    if not m:
        raise ValueError('not a command: ' + line[:80])
    action, xpath, element, dst = m.groups()
    mv = VS.match(xpath)
    if not mv:
        raise ValueError('xpath outside a vsys: ' + xpath[:80])
    vs, tail = mv.groups()
    F = {'source': 'FSrc', 'destination': 'FDst', 'service': 'FSrv'}
    mm = re.match(r"^/rulebase/security/rules/entry\[@name='(.*?)'\](?:/(source|destination|service)(?:/member\[text\(\)='(.*)'\])?)?$", tail, re.S)
    if mm:
        name, fld, mem = mm.groups()
        if fld is None:
            if action == 'set':
                el = inner(element)
                el.set('name', name)
                r = rule_from_el(el)
                return vs, 'RuleSet %s' % c_rule(name, r['misc'], r['src'], r['dst'], r['srv'])
            if action == 'move':
                return vs, 'RuleMove %s %s' % (S(name), S(dst))
            if action == 'delete':
                return vs, 'RuleDel %s' % S(name)
        elif mem is not None and action == 'delete':
            return vs, 'RuleMemberDel %s %s %s' % (S(name), F[fld], S(mem))
        elif action == 'set':
            return vs, 'RuleMemberAdd %s %s %s' % (S(name), F[fld], C.clist([S(x.text or '') for x in inner(element).findall('member')]))
        elif action == 'edit':
            el = inner(element)
            return vs, 'RuleListEdit %s %s %s' % (S(name), F[fld], C.clist([S(x.text or '') for x in el[0].findall('member')]))
        raise ValueError('unknown rule command: ' + line[:120])
    mm = re.match(r"^/(address|service)/entry\[@name='(.*?)'\]$", tail, re.S)
    if mm:
        kind, name = mm.groups()
        K = 'Addr' if kind == 'address' else 'Svc'
        if action == 'delete':
            return vs, '%sDel %s' % (K, S(name))
        if action == 'set':
            return vs, '%sSet %s %s' % (K, S(name), S(''.join(canon(c) for c in inner(element))))
        if action == 'edit':
            return vs, '%sEdit %s %s' % (K, S(name), S(''.join(canon(c) for c in inner(element)[0])))
    mm = re.match(r"^/(address-group|service-group)/entry\[@name='(.*?)'\](?:/(static|members)(?:/member\[text\(\)='(.*)'\])?)?$", tail, re.S)
    if mm:
        kind, name, sub, mem = mm.groups()
        K = 'Grp' if kind == 'address-group' else 'SGrp'
        if sub is None and action == 'delete':
            return vs, '%sDel %s' % (K, S(name))
        if sub and mem is None and action == 'set':
            return vs, '%sSet %s %s' % (K, S(name), C.clist([S(x.text or '') for x in inner(element).findall('member')]))
        if sub and mem is not None and action == 'delete' and K == 'Grp':
            return vs, 'GrpMemberDel %s %s' % (S(name), S(mem))
    raise ValueError('command not understood: ' + line[:160])


def parse_script(out):
    """stdout of drc -> {vsys: [op terms]}, list of lines not understood"""
    per, bad = {}, []
    for ln in out.split('\n'):
        if not ln.startswith('action='):
            continue
        try:
            vs, term = parse_cmd(ln)
            per.setdefault(vs, []).append(term)
        except (ValueError, ET.ParseError, IndexError) as e:
            bad.append('%s (%s)' % (ln[:200], e))
    return per, bad


# ------------------------------------------------------------------ rendered state (Panos.Oracle.render) -> vsys dict
def vsys_from_render(lines, misc_xml):
    """misc_xml: canonical misc -> dict(action, frm, to, extra) to rebuild the XML"""
    v = new_vsys()
    for ln in lines:
        f = ln.split('|')
        sp = lambda s: [x for x in s.split(';') if x != ''] if s else []
        if f[0] == 'R':
            base = misc_xml[f[2]]
            v['rules'].append(dict(base, name=f[1], src=sp(f[3]), dst=sp(f[4]), srv=sp(f[5])))
        elif f[0] == 'A':
            v['addr'][f[1]] = re.sub(r'</?ip-netmask>', '', f[2])
        elif f[0] == 'G':
            v['grp'][f[1]] = sp(f[2])
        elif f[0] == 'S':
            m = re.match(r'<protocol><(tcp|udp)><port>(.*?)</port>', f[2])
            v['svc'][f[1]] = '%s %s' % (m.group(1), m.group(2))
        elif f[0] == 'T':
            v['sgrp'][f[1]] = sp(f[2])
    return v
