"""ASA tunnel-groups named by the peer address (IPv4 and IPv6) with their attribute sections, the
group-policies they reference and the vpn-filter ACLs of those: generator, rendering, execution of
the emitted commands on Cisco/Tunnel.v (used by C01: convergence and second compare, C08: every
command accepted, C10: resume after every cut)."""
from vlib import common as C
from vlib import drcrun
from vlib.cisco import parse_coq_term

S = C.cbytes
WHY = {1: 'an object that does not exist is referenced', 2: 'an object that is still referenced is removed',
       3: 'no such object, section or line', 6: 'command not understood by the device model'}
NAMES = ['193.155.130.1', '193.155.130.2', '193.155.130.3', '10.7.7.7', '2001:db8::1', '2001:db8::2', '2001:db8::9', '2001:db8:1::a']
IPSEC = [['peer-id-validate', 'nocheck'], ['peer-id-validate', 'req'], ['trust-point', 'TP1'], ['trust-point', 'TP2'],
         ['ikev2', 'local-authentication', 'certificate', 'TP2'], ['ikev2', 'remote-authentication', 'certificate'],
         ['ikev1', 'trust-point', 'TP1'], ['ikev1', 'user-authentication', 'none']]
GPATTR = [['vpn-idle-timeout', '60'], ['vpn-idle-timeout', '120'], ['vpn-session-timeout', '40'], ['split-tunnel-policy', 'tunnelall'],
          ['split-tunnel-policy', 'tunnelspecified'], ['pfs', 'enable'], ['banner', 'value', 'Welcome!'], ['vpn-simultaneous-logins', '4']]


def key(l):
    return tuple(l[:2]) if l[0] in ('ikev1', 'ikev2') else (l[0],)


def pick(rng, pool, n):
    out = {}
    for l in rng.sample(pool, min(n, len(pool))):
        out.setdefault(key(l), l)
    return [list(l) for l in out.values()]


def acl_lines(rng):
    ls = [['extended', 'permit', 'ip', 'host', '10.1.2.%d' % h, '10.1.0.0', '255.255.255.0'] for h in sorted(rng.sample(range(2, 9), rng.choice([1, 1, 2, 3])))]
    return ls + [['extended', 'deny', 'ip', 'any4', 'any4']]


def new_cfg():
    return dict(acls={}, pools={}, gps={}, tgs={}, users={})          # tgs: name -> [type, [(section, [lines])]]; users: name -> [lines]


USERS = ['jon.doe@token.example.com', 'mary@example.com', 'bob@vpn.example.com']
UATTR = [['service-type', 'remote-access'], ['vpn-framed-ip-address', '10.1.1.67', '255.255.254.0'], ['vpn-framed-ip-address', '10.11.22.33', '255.255.0.0'],
         ['vpn-simultaneous-logins', '4'], ['password-storage', 'enable'], ['vpn-idle-timeout', '60']]
POOLS = ['10.1.219.192-10.1.219.255 mask 0.0.0.63', '10.1.23.0-10.1.23.127 mask 255.255.255.128', '10.3.4.8-10.3.4.15 mask 255.255.255.248']


def std_acl(rng):
    return [['standard', 'permit', '10.%d.0.0' % k, '255.255.255.0'] for k in sorted(rng.sample(range(1, 9), rng.choice([1, 2])))]


def gen_target(rng):
    c = new_cfg()
    names = rng.sample(NAMES, rng.choice([1, 2, 2, 3, 4]))
    for i, n in enumerate(sorted(names)):
        secs = []
        if rng.random() < 0.75:
            if c['gps'] and rng.random() < 0.2:
                g = rng.choice(sorted(c['gps']))                     # two tunnel-groups share a group-policy
            else:
                g = 'VPN-group%d' % (i + 1)
                attrs = pick(rng, GPATTR, rng.choice([0, 1, 2, 3]))
                if rng.random() < 0.7:
                    a = 'vpn-filter%d' % (i + 1)
                    c['acls'][a] = acl_lines(rng)
                    attrs.insert(0, ['vpn-filter', 'value', a])
                c['gps'][g] = attrs
            secs.append(('general-attributes', [['default-group-policy', g]]))
        if rng.random() < 0.8:
            secs.append(('ipsec-attributes', pick(rng, IPSEC, rng.choice([1, 2, 3]))))
        c['tgs'][n] = ['ipsec-l2l', secs]
    for i, u in enumerate(rng.sample(USERS, rng.choice([0, 0, 1, 2]))):
        attrs = pick(rng, UATTR, rng.choice([1, 2, 3]))
        if rng.random() < 0.6:
            if c['gps'] and rng.random() < 0.3:
                g = rng.choice(sorted(c['gps']))
            else:
                g = 'VPN-user%d' % (i + 1)
                c['gps'][g] = pick(rng, GPATTR, rng.choice([1, 2]))
            attrs.append(['vpn-group-policy', g])
        if rng.random() < 0.5:
            a = 'user-filter%d' % (i + 1)
            c['acls'][a] = acl_lines(rng)
            attrs.append(['vpn-filter', 'value', a])
        c['users'][u] = attrs
    for g in sorted(c['gps']):
        if rng.random() < 0.3:
            p = 'pool%d' % (len(c['pools']) + 1)
            c['pools'][p] = rng.choice(POOLS).split()
            c['gps'][g].append(['address-pools', 'value', p])
        if rng.random() < 0.25 and not any(l[0] == 'split-tunnel-policy' for l in c['gps'][g]):
            a = 'split-tunnel%d' % (len(c['acls']) + 1)
            c['acls'][a] = std_acl(rng)
            c['gps'][g] += [['split-tunnel-network-list', 'value', a], ['split-tunnel-policy', 'tunnelspecified']]
    return c


def copy_cfg(c):
    return dict(acls=dict((a, [list(l) for l in ls]) for a, ls in c['acls'].items()),
                pools=dict((p, list(d)) for p, d in c['pools'].items()),
                users=dict((u, [list(l) for l in b]) for u, b in c['users'].items()),
                gps=dict((g, [list(l) for l in b]) for g, b in c['gps'].items()),
                tgs=dict((t, [v[0], [(s, [list(l) for l in b]) for s, b in v[1]]]) for t, v in c['tgs'].items()))


def gp_of(v):
    for s, b in v[1]:
        for l in b:
            if l[0] == 'default-group-policy':
                return l[1]
    return None


def set_gp(v, g):
    for s, b in v[1]:
        for l in b:
            if l[0] == 'default-group-policy':
                l[1] = g


def cleanup(c, keep=()):
    used_g = set(gp_of(v) for v in c['tgs'].values()) | set(l[1] for b in c['users'].values() for l in b if l[0] == 'vpn-group-policy') | set(k for k in keep if k in c['gps'])
    c['gps'] = dict((g, b) for g, b in c['gps'].items() if g in used_g)
    blocks = list(c['gps'].values()) + list(c['users'].values())
    used_a = set(l[2] for b in blocks for l in b if l[:2] in (['vpn-filter', 'value'], ['split-tunnel-network-list', 'value'])) | set(k for k in keep if k in c['acls'])
    c['acls'] = dict((a, ls) for a, ls in c['acls'].items() if a in used_a)
    used_p = set(l[2] for b in c['gps'].values() for l in b if l[:2] == ['address-pools', 'value']) | set(k for k in keep if k in c['pools'])
    c['pools'] = dict((p, d) for p, d in c['pools'].items() if p in used_p)


def mutate(rng, tgt):
    d = copy_cfg(tgt)
    edits, keep = [], set()
    for _ in range(rng.choice([0, 1, 1, 2, 2, 3, 4])):
        e = rng.choice(['del_tg', 'old_tg', 'ipsec_attr', 'gp_attr', 'acl_line', 'rename_gp', 'rename_acl', 'share_gp', 'drop_section', 'leftover',
                        'no_filter', 'other_filter', 'drop_ipsec', 'del_user', 'old_user', 'user_attr', 'user_gp', 'pool_def', 'rename_pool', 'no_pool', 'user_filter'])
        tgs = sorted(d['tgs'])
        if e == 'del_tg' and tgs:
            d['tgs'].pop(rng.choice(tgs))
        elif e == 'old_tg':
            n = rng.choice([x for x in NAMES if x not in d['tgs']] or [None])
            if n is None:
                continue
            k = rng.randrange(50, 60)
            d['acls']['vpn-old%d' % k] = acl_lines(rng)
            d['gps']['VPN-old%d' % k] = [['vpn-filter', 'value', 'vpn-old%d' % k]] + pick(rng, GPATTR, 1)
            d['tgs'][n] = ['ipsec-l2l', [('general-attributes', [['default-group-policy', 'VPN-old%d' % k]]), ('ipsec-attributes', pick(rng, IPSEC, 1))]]
            if rng.random() < 0.5:
                # a left-over group-policy nothing refers to shares the ACL (and a pool) with the obsolete one:
                # the shared objects lose their referrers in different rounds of the clean-up
                d['pools']['pool-old%d' % k] = rng.choice(POOLS).split()
                d['gps']['VPN-old%d' % k].append(['address-pools', 'value', 'pool-old%d' % k])
                d['gps']['Left-DRC-%d' % k] = [['vpn-filter', 'value', 'vpn-old%d' % k], ['address-pools', 'value', 'pool-old%d' % k]]
                keep |= {'Left-DRC-%d' % k}
        elif e == 'ipsec_attr' and tgs:
            v = d['tgs'][rng.choice(tgs)]
            secs = dict(v[1])
            secs['ipsec-attributes'] = pick(rng, IPSEC, rng.choice([1, 2, 3]))
            v[1] = [(s, secs[s]) for s in ('general-attributes', 'ipsec-attributes') if s in secs]
        elif e == 'drop_ipsec' and tgs:
            v = d['tgs'][rng.choice(tgs)]
            v[1] = [(s, b) for s, b in v[1] if s != 'ipsec-attributes']
        elif e == 'gp_attr' and d['gps']:
            g = rng.choice(sorted(d['gps']))
            flt = [l for l in d['gps'][g] if l[:2] == ['vpn-filter', 'value']]
            d['gps'][g] = flt + pick(rng, GPATTR, rng.choice([0, 1, 2, 3]))
        elif e == 'no_filter' and d['gps']:
            g = rng.choice(sorted(d['gps']))
            d['gps'][g] = [l for l in d['gps'][g] if l[:2] != ['vpn-filter', 'value']]
        elif e == 'other_filter' and d['gps']:
            g = rng.choice(sorted(d['gps']))
            a = 'vpn-other%d' % rng.randrange(5)
            d['acls'][a] = acl_lines(rng)
            d['gps'][g] = [['vpn-filter', 'value', a]] + [l for l in d['gps'][g] if l[:2] != ['vpn-filter', 'value']]
        elif e == 'acl_line' and d['acls']:
            a = rng.choice(sorted(d['acls']))
            d['acls'][a] = acl_lines(rng)
        elif e == 'rename_gp' and d['gps']:
            g = rng.choice(sorted(d['gps']))
            new = g + '-DRC-%d' % rng.randrange(2)
            if new not in d['gps']:
                d['gps'][new] = d['gps'].pop(g)
                for v in d['tgs'].values():
                    if gp_of(v) == g:
                        set_gp(v, new)
                for b in d['users'].values():
                    for l in b:
                        if l[0] == 'vpn-group-policy' and l[1] == g:
                            l[1] = new
        elif e == 'rename_acl' and d['acls']:
            a = rng.choice(sorted(d['acls']))
            new = a + '-DRC-%d' % rng.randrange(2)
            if new not in d['acls']:
                d['acls'][new] = d['acls'].pop(a)
                for b in list(d['gps'].values()) + list(d['users'].values()):
                    for l in b:
                        if l[:2] in (['vpn-filter', 'value'], ['split-tunnel-network-list', 'value']) and l[2] == a:
                            l[2] = new
        elif e == 'share_gp' and len(tgs) > 1:
            # on the device two tunnel-groups use one group-policy, the target gives each its own
            x, y = rng.sample(tgs, 2)
            g = gp_of(d['tgs'][x])
            if g and gp_of(d['tgs'][y]):
                set_gp(d['tgs'][y], g)
        elif e == 'drop_section' and tgs:
            v = d['tgs'][rng.choice(tgs)]
            v[1] = [(s, b) for s, b in v[1] if s != 'general-attributes']
        elif e == 'del_user' and d['users']:
            d['users'].pop(rng.choice(sorted(d['users'])))
        elif e == 'old_user':
            u = 'old%d@example.com' % rng.randrange(3)
            k = rng.randrange(60, 70)
            d['gps']['VPN-olduser%d' % k] = pick(rng, GPATTR, 1)
            d['users'][u] = pick(rng, UATTR, 1) + [['vpn-group-policy', 'VPN-olduser%d' % k]]
        elif e == 'user_attr' and d['users']:
            u = rng.choice(sorted(d['users']))
            refs_ = [l for l in d['users'][u] if l[0] in ('vpn-filter', 'vpn-group-policy')]
            d['users'][u] = pick(rng, UATTR, rng.choice([1, 2, 3])) + refs_
        elif e == 'user_gp' and d['users']:
            u = rng.choice(sorted(d['users']))
            d['users'][u] = [l for l in d['users'][u] if l[0] != 'vpn-group-policy']
            if d['gps'] and rng.random() < 0.6:
                d['users'][u].append(['vpn-group-policy', rng.choice(sorted(d['gps']))])
        elif e == 'user_filter' and d['users']:
            u = rng.choice(sorted(d['users']))
            d['users'][u] = [l for l in d['users'][u] if l[0] != 'vpn-filter']
            if rng.random() < 0.6:
                a = 'user-other%d' % rng.randrange(4)
                d['acls'][a] = acl_lines(rng)
                d['users'][u].append(['vpn-filter', 'value', a])
        elif e == 'pool_def' and d['pools']:
            p = rng.choice(sorted(d['pools']))
            d['pools'][p] = rng.choice(POOLS).split()
        elif e == 'rename_pool' and d['pools']:
            p = rng.choice(sorted(d['pools']))
            new = p + '-DRC-%d' % rng.randrange(2)
            if new not in d['pools']:
                d['pools'][new] = d['pools'].pop(p)
                for b in d['gps'].values():
                    for l in b:
                        if l[:2] == ['address-pools', 'value'] and l[2] == p:
                            l[2] = new
        elif e == 'no_pool' and d['gps']:
            g = rng.choice(sorted(d['gps']))
            d['gps'][g] = [l for l in d['gps'][g] if l[:2] != ['address-pools', 'value']]
        elif e == 'leftover':
            k = rng.randrange(3)
            d['acls']['left-DRC-%d' % k] = acl_lines(rng)
            d['gps']['Left-DRC-%d' % k] = [['vpn-filter', 'value', 'left-DRC-%d' % k]]
            keep |= {'left-DRC-%d' % k, 'Left-DRC-%d' % k}
        else:
            continue
        edits.append(e)
    cleanup(d, keep)
    return d, edits


def render(c):
    out = []
    for a, ls in c['acls'].items():
        out += ['access-list %s %s' % (a, ' '.join(l)) for l in ls]
    for p_, d_ in c['pools'].items():
        out.append('ip local pool %s %s' % (p_, ' '.join(d_)))
    for g, b in c['gps'].items():
        out += ['group-policy %s internal' % g, 'group-policy %s attributes' % g] + [' ' + ' '.join(l) for l in b]
    for u, b in c['users'].items():
        out += ['username %s nopassword' % u, 'username %s attributes' % u] + [' ' + ' '.join(l) for l in b]
    for t, v in c['tgs'].items():
        out.append('tunnel-group %s type %s' % (t, v[0]))
        for s, b in v[1]:
            out += ['tunnel-group %s %s' % (t, s)] + [' ' + ' '.join(l) for l in b]
    return '\n'.join(out) + '\n'


def cw(l):
    return C.clist([S(x) for x in l])


def c_tdev(c):
    return '{| td_acls := %s; td_pools := %s; td_gps := %s; td_tgs := %s; td_users := %s; td_mode := TTop |}' % (
        C.clist(['(%s, %s)' % (S(a), C.clist([cw(l) for l in ls])) for a, ls in c['acls'].items()]),
        C.clist(['(%s, %s)' % (S(p_), cw(d_)) for p_, d_ in c['pools'].items()]),
        C.clist(['(%s, %s)' % (S(g), C.clist([cw(l) for l in b])) for g, b in c['gps'].items()]),
        C.clist(['(%s, (%s, %s))' % (S(t), S(v[0]), C.clist(['(%s, %s)' % (S(s), C.clist([cw(l) for l in b])) for s, b in v[1]])) for t, v in c['tgs'].items()]),
        C.clist(['(%s, %s)' % (S(u), C.clist([cw(l) for l in b])) for u, b in c['users'].items()]))


def sub_line(w):
    """is this command one of the attribute lines the generator uses in sub-modes (possibly negated)?"""
    w = w[1:] if w[:1] == ['no'] else w
    heads = set(l[0] for l in IPSEC + GPATTR + UATTR) | {'vpn-filter', 'address-pools', 'split-tunnel-network-list', 'default-group-policy', 'vpn-group-policy'}
    return bool(w) and w[0] in heads


def script_words(out):
    return [ln.split() for ln in out.split('\n') if ln.strip()]


def c_case(dev, tgt, cmds):
    return '{| tc_dev := %s; tc_tgt := %s; tc_cmds := %s |}' % (c_tdev(dev), c_tdev(tgt), C.clist([cw(w) for w in cmds]))


IMPORTS = ('From Coq Require Import List String.\nFrom NA Require Import Robust.GoStr Cisco.Vpn Cisco.Tunnel.\nImport ListNotations.\nOpen Scope string_scope.\n')


def corpus():
    """fixed cases run first"""
    out = []
    # tunnel-groups named by IPv6 addresses: attributes added, a new one with group-policy and filter, an obsolete one (seed C01-4)
    t = new_cfg()
    t['acls']['vpn-filter'] = [['extended', 'permit', 'ip', 'host', '10.1.2.2', '10.1.0.0', '255.255.255.0'], ['extended', 'deny', 'ip', 'any4', 'any4']]
    t['gps']['VPN-group'] = [['vpn-filter', 'value', 'vpn-filter'], ['vpn-idle-timeout', '60']]
    ik = [['ikev2', 'local-authentication', 'certificate', 'TP2'], ['ikev2', 'remote-authentication', 'certificate']]
    t['tgs'] = {'193.155.130.1': ['ipsec-l2l', [('ipsec-attributes', [['peer-id-validate', 'nocheck']] + ik)]],
                '2001:db8::1': ['ipsec-l2l', [('ipsec-attributes', [['peer-id-validate', 'nocheck']] + ik)]],
                '2001:db8::2': ['ipsec-l2l', [('general-attributes', [['default-group-policy', 'VPN-group']]),
                                              ('ipsec-attributes', [['peer-id-validate', 'req'], ['trust-point', 'TP1']])]]}
    d = new_cfg()
    d['acls']['vpn-old'] = [['extended', 'permit', 'ip', 'host', '10.9.9.9', '10.1.0.0', '255.255.255.0']]
    d['gps']['VPN-old'] = [['vpn-filter', 'value', 'vpn-old']]
    d['tgs'] = {'193.155.130.1': ['ipsec-l2l', [('ipsec-attributes', [['peer-id-validate', 'nocheck']])]],
                '2001:db8::1': ['ipsec-l2l', [('ipsec-attributes', [['peer-id-validate', 'nocheck']])]],
                '2001:db8::9': ['ipsec-l2l', [('general-attributes', [['default-group-policy', 'VPN-old']]), ('ipsec-attributes', [['peer-id-validate', 'req']])]]}
    out.append(dict(tgt=t, dev=d, edits=['corpus-ipv6-named-tunnel-groups']))
    # one object whose sub-mode is entered for a removal, then a line of its filter ACL is deleted (a top-level command),
    # then a further attribute is added: the header line must be sent again (seeds C08-2 / C01-5)
    t = new_cfg()
    t['acls']['vpn-filter'] = [['extended', 'permit', 'ip', 'host', '10.1.1.67', '10.2.42.0', '255.255.255.224'], ['extended', 'deny', 'ip', 'any4', 'any4']]
    t['users']['jon.doe@token.example.com'] = [['service-type', 'remote-access'], ['vpn-filter', 'value', 'vpn-filter'], ['vpn-idle-timeout', '60']]
    d = copy_cfg(t)
    d['acls']['vpn-filter'].insert(1, ['extended', 'permit', 'ip', 'host', '10.1.1.67', '10.2.43.0', '255.255.255.224'])
    d['users']['jon.doe@token.example.com'] = [['service-type', 'remote-access'], ['vpn-filter', 'value', 'vpn-filter'], ['vpn-simultaneous-logins', '4']]
    out.append(dict(tgt=t, dev=d, edits=['corpus-user-attribute-after-acl-line-deleted']))
    t = new_cfg()
    t['acls']['vpn-filter'] = [['extended', 'permit', 'ip', 'host', '10.1.2.2', '10.1.0.0', '255.255.255.0'], ['extended', 'deny', 'ip', 'any4', 'any4']]
    t['pools']['pool'] = POOLS[0].split()
    t['gps']['VPN-group'] = [['vpn-filter', 'value', 'vpn-filter'], ['address-pools', 'value', 'pool'], ['vpn-session-timeout', '40']]
    t['users']['mary@example.com'] = [['vpn-group-policy', 'VPN-group']]
    d = copy_cfg(t)
    d['acls']['vpn-filter'].insert(1, ['extended', 'permit', 'ip', 'host', '10.1.2.3', '10.1.0.0', '255.255.255.0'])
    d['pools']['pool'] = POOLS[1].split()
    d['gps']['VPN-group'] = [['vpn-filter', 'value', 'vpn-filter'], ['address-pools', 'value', 'pool']]
    out.append(dict(tgt=t, dev=d, edits=['corpus-group-policy-attribute-after-acl-line-deleted']))
    # an obsolete tunnel-group whose group-policy shares its ACL and pool with a left-over group-policy (seed C08-4)
    t = new_cfg()
    t['tgs'] = {'193.155.130.1': ['ipsec-l2l', [('ipsec-attributes', [['peer-id-validate', 'nocheck']])]]}
    d = copy_cfg(t)
    d['acls']['vpn-old'] = [['extended', 'permit', 'ip', 'host', '10.9.9.9', '10.1.0.0', '255.255.255.0']]
    d['pools']['pool-old'] = POOLS[2].split()
    d['gps']['VPN-old'] = [['vpn-filter', 'value', 'vpn-old'], ['address-pools', 'value', 'pool-old']]
    d['gps']['Left-DRC-0'] = [['vpn-filter', 'value', 'vpn-old'], ['address-pools', 'value', 'pool-old']]
    d['tgs']['193.155.130.9'] = ['ipsec-l2l', [('general-attributes', [['default-group-policy', 'VPN-old']])]]
    out.append(dict(tgt=t, dev=d, edits=['corpus-shared-objects-of-obsolete-and-left-over-group-policy']))
    return out


def family(ctx, n, resume=0):
    """-> dict(conv=[...], refused=[...], resume=[...], breaks=[...], stats)"""
    rng = ctx.rng
    cases = corpus()
    for _ in range(n):
        t = gen_target(rng)
        d, e = mutate(rng, t)
        cases.append(dict(tgt=t, dev=d, edits=e))
    jobs = [dict(model='ASA', device=render(c['dev']), netspoc=render(c['tgt'])) for c in cases]
    res = drcrun.run_many(ctx, jobs)
    out = dict(conv=[], refused=[], resume=[], breaks=[], stats=dict(cases=len(cases), with_commands=0, resumed=0, ipv6_named=0))
    items, meta = [], []
    for c, job, r in zip(cases, jobs, res):
        rep = dict(model='ASA', command='drc -q device code/router', files=dict(device=job['device'], netspoc=job['netspoc']), edits=c['edits'],
                   stdout=r['out'], stderr=r['err'][-400:], rc=r['rc'])
        if r['panic'] or r['rc'] not in (0, 1):
            out['conv'].append(dict(what='ASA tunnel-groups: drc crashes', replay=rep))
            continue
        if r['rc'] != 0:
            out['breaks'].append(dict(correspondence='generated ASA tunnel-group configuration rejected by drc', case=rep))
            continue
        c['cmds'] = script_words(r['out'])
        c['rep'] = rep
        items.append(c_case(c['dev'], c['tgt'], c['cmds']))
        meta.append(c)
        if any(':' in t for t in list(c['tgt']['tgs']) + list(c['dev']['tgs'])):
            out['stats']['ipv6_named'] += 1
    if not items:
        return out
    text = IMPORTS + 'Definition V := Eval vm_compute in map tjudge %s.\nPrint V.\n' % C.clist(items)
    verd = parse_coq_term(ctx.coq_eval('tunnel_main', text))
    second, smeta = [], []
    for c, v in zip(meta, verd):
        pos, why, conv, rendered, already = v
        conv, already = conv == 'true', already == 'true'
        c['ok'] = False
        if c['cmds']:
            out['stats']['with_commands'] += 1
        if pos:
            if why == 6 and sub_line(c['cmds'][pos - 1]):
                # an attribute line of this generator at the top level: the device left the sub-mode (a top-level command was sent) and the header line was not repeated
                out['refused'].append(dict(what='ASA tunnel-groups: command %d (%s) is a sub-command sent outside its sub-mode' % (pos, ' '.join(c['cmds'][pos - 1])),
                                           replay=dict(c['rep'], refused_command=pos, reason='sub-command at the top level')))
            elif why == 6:
                out['breaks'].append(dict(correspondence='ASA tunnel-groups: command %d not understood by Cisco/Tunnel.v' % pos, case=c['rep']))
            else:
                out['refused'].append(dict(what='ASA tunnel-groups: command %d is refused by the device: %s' % (pos, WHY.get(why, why)),
                                           replay=dict(c['rep'], refused_command=pos, reason=WHY.get(why, why))))
            continue
        if not conv:
            out['conv'].append(dict(what='ASA tunnel-groups: after the commands the tunnel-groups (with group-policies and filters expanded) are not equivalent to the target',
                                    replay=dict(c['rep'], final_state=rendered)))
            continue
        if not c['cmds'] and not already:
            out['conv'].append(dict(what='ASA tunnel-groups: no change reported although the tunnel-groups differ from the target', replay=c['rep']))
            continue
        c['ok'] = True
        second.append(dict(model='ASA', device='\n'.join(rendered) + '\n', netspoc=render(c['tgt'])))
        smeta.append(c)
    for c, job, r in zip(smeta, second, drcrun.run_many(ctx, second)):
        if r['rc'] != 0 or r['out'].strip():
            out['conv'].append(dict(what='ASA tunnel-groups: the second compare on the resulting configuration reports changes again',
                                    replay=dict(c['rep'], second_device=job['device'], second_stdout=r['out'], second_stderr=r['err'][-300:])))
    # resumption after every cut
    sel = [c for c in meta if c.get('ok') and len(c['cmds']) > 1][:resume]
    if sel:
        text = IMPORTS + 'Definition V := Eval vm_compute in map tprefix_states %s.\nPrint V.\n' % C.clist([c_case(c['dev'], c['tgt'], c['cmds']) for c in sel])
        pref = parse_coq_term(ctx.coq_eval('tunnel_prefix', text))
        jobs3, where = [], []
        for c, states in zip(sel, pref):
            for k, lines in enumerate(states):
                jobs3.append(dict(model='ASA', device='\n'.join(lines) + '\n', netspoc=render(c['tgt'])))
                where.append((c, k + 1, lines))
        res3 = drcrun.run_many(ctx, jobs3)
        items3 = []
        for (c, k, lines), r in zip(where, res3):
            cmds2 = script_words(r['out']) if r['rc'] == 0 else []
            items3.append('(%s, %d, %s)' % (c_case(c['dev'], c['tgt'], c['cmds']), k, C.clist([cw(w) for w in cmds2])))
        text = (IMPORTS + 'Definition resume (x : tcase * nat * list words) :=\n  match x with (c, k, cmds2) =>\n'
                '    tjudge {| tc_dev := ttop (tprefix (tc_dev c) (tc_cmds c) k); tc_tgt := tc_tgt c; tc_cmds := cmds2 |} end.\n'
                'Definition V := Eval vm_compute in map resume %s.\nPrint V.\n' % C.clist(items3))
        verd3 = parse_coq_term(ctx.coq_eval('tunnel_resume', text))
        third, tmeta = [], []
        for (c, k, lines), r, v in zip(where, res3, verd3):
            out['stats']['resumed'] += 1
            pos, why, conv, rendered, _ = v
            rep = dict(c['rep'], cut_after=k, state='\n'.join(lines), resumed_script=r['out'], resumed_stderr=r['err'][-300:])
            if r['rc'] != 0:
                out['resume'].append(dict(what='ASA tunnel-groups: cut after %d commands: the next run is rejected (%s)' % (k, r['err'].strip().split('\n')[-1][:80]), replay=rep))
            elif pos and why != 6:
                out['resume'].append(dict(what='ASA tunnel-groups: cut after %d commands: command %d of the resumed run is refused: %s' % (k, pos, WHY.get(why, why)), replay=rep))
            elif pos:
                out['breaks'].append(dict(correspondence='ASA tunnel-groups (resume): command not understood by Cisco/Tunnel.v', case=rep))
            elif conv != 'true':
                out['resume'].append(dict(what='ASA tunnel-groups: cut after %d commands: the resumed run does not reach the target' % k, replay=dict(rep, final_state=rendered)))
            else:
                third.append(dict(model='ASA', device='\n'.join(rendered) + '\n', netspoc=render(c['tgt'])))
                tmeta.append((k, rep))
        for (k, rep), job, r in zip(tmeta, third, drcrun.run_many(ctx, third)):
            if r['rc'] != 0 or r['out'].strip():
                out['resume'].append(dict(what='ASA tunnel-groups: cut after %d commands: third compare still reports changes' % k,
                                          replay=dict(rep, third_device=job['device'], third_compare=r['out'])))
    return out
