"""Shared machinery of the /verif checks: building the implementation and the
harness from /repo's current tree, building and querying the Coq development,
evaluating generated case files inside Coq, known findings, evidence, replays."""
import fcntl, hashlib, json, os, random, re, shutil, subprocess, sys, time

VERIF = os.path.dirname(os.path.dirname(os.path.abspath(__file__)))
REPO = '/repo'
COQ = os.path.join(VERIF, 'coq')
THEORIES = os.path.join(COQ, 'theories')
WORKROOT = os.path.join(VERIF, '.work')
GOENV = dict(GOFLAGS='-mod=mod', GOPROXY='off', GOSUMDB='off', GOTOOLCHAIN='local',
             CGO_ENABLED='0')
FORBIDDEN = re.compile(
    r'\b(Admitted|admit|Axiom|Axioms|Parameter|Parameters|Conjecture|Hypothesis|Variable)\b'
    r'|Unset\s+Guard|Unset\s+Positivity|Unset\s+Universe|bypass_check|type-in-type|impredicative-set|Admit\s+Obligations')
# Axioms of the standard library that a proof may depend on (named in DESIGN.md 6).
ALLOWED_AXIOMS = ()


def log(*a):
    print(*a, file=sys.stderr, flush=True)


class Lock:
    def __init__(self, name):
        os.makedirs(WORKROOT, exist_ok=True)
        self.path = os.path.join(WORKROOT, name + '.lock')

    def __enter__(self):
        self.fh = open(self.path, 'w')
        fcntl.flock(self.fh, fcntl.LOCK_EX)
        return self

    def __exit__(self, *a):
        fcntl.flock(self.fh, fcntl.LOCK_UN)
        self.fh.close()


def run(cmd, cwd=None, env=None, timeout=None, inp=None):
    e = dict(os.environ)
    if env:
        e.update(env)
    p = subprocess.run(cmd, cwd=cwd, env=e, input=inp, timeout=timeout,
                       stdout=subprocess.PIPE, stderr=subprocess.PIPE, text=True)
    return p.returncode, p.stdout, p.stderr


class Ctx:
    def __init__(self, prop, tier):
        self.prop = prop
        self.tier = tier
        self.seed = int(os.environ.get('VERIF_SEED', '1') or 1)
        self.rng = random.Random(self.seed * 1000003 + sum(map(ord, prop)))
        self.t0 = time.time()
        self.work = os.path.join(WORKROOT, '%s-%d' % (prop, os.getpid()))
        shutil.rmtree(self.work, ignore_errors=True)
        os.makedirs(self.work)
        self.bin = os.path.join(self.work, 'bin')
        self.broken = []       # names of theorems / correspondences that no longer check
        self.notes = []

    def cleanup(self):
        shutil.rmtree(self.work, ignore_errors=True)

    # ---- implementation and harness, always from /repo's current tree ----
    def build_impl(self):
        rc, out, err = run(['go', 'build', '-o', self.bin + '/', './cmd/...'],
                           cwd=os.path.join(REPO, 'go'), env=GOENV, timeout=600)
        if rc != 0:
            self.broken.append('build of /repo/go failed: ' + err[-400:])
            return False
        return True

    def build_harness(self):
        h = os.path.join(VERIF, 'harness')
        with Lock('harness'):
            shutil.copy(os.path.join(REPO, 'go', 'go.sum'), os.path.join(h, 'go.sum'))
            rc, out, err = run(['go', 'build', '-tags', 'verif', '-o',
                                os.path.join(self.bin, 'nah'), './cmd/nah'],
                               cwd=h, env=GOENV, timeout=600)
        if rc != 0:
            self.broken.append('build of harness against /repo/go failed: ' + err[-600:])
            return False
        return True

    # ---- Coq ----
    def coq_build(self):
        """Regenerate Gen/*.v from /repo, full .vo build (incremental make)."""
        with Lock('coq'):
            from vlib import translators
            msgs = translators.regenerate(self)
            for m in msgs:
                self.broken.append(m)
            if not os.path.exists(os.path.join(COQ, 'Makefile')):
                run(['coq_makefile', '-f', '_CoqProject', '-o', 'Makefile'], cwd=COQ)
            rc, out, err = run(['timeout', '3000', 'make', '-j16'], cwd=COQ)
            self.coq_log = out + err
            if rc != 0:
                m = re.findall(r'File "([^"]+)", line (\d+)[^\n]*\n(Error:[^\n]*(?:\n[^\n]+){0,3})', self.coq_log)
                self.coq_errors = m
                return False
        return True

    def proof_status(self, propfile=None):
        """Compile state of the property file: theorems stated, closed, axioms."""
        propfile = propfile or ('Properties/%s.v' % self.prop)
        st = dict(file=propfile, theorems=[], closed=0, axioms=[], ok=False,
                  obligations=0, discharged=0, forbidden=[])
        built = self.coq_build()
        src = os.path.join(THEORIES, propfile)
        text = open(src).read()
        st['theorems'] = re.findall(r'^\s*Theorem\s+(\w+)', text, re.M)
        # forbidden tokens anywhere in the development
        for root, _, files in os.walk(THEORIES):
            for f in files:
                if f.endswith('.v'):
                    body = strip_comments(open(os.path.join(root, f)).read())
                    for m in FORBIDDEN.finditer(body):
                        if in_section(body, m.start()) and m.group(0) in ('Variable', 'Hypothesis'):
                            continue
                        st['forbidden'].append('%s: %s' % (os.path.relpath(os.path.join(root, f), THEORIES), m.group(0)))
        closure = dep_closure(propfile)
        st['closure'] = closure
        for f in closure:
            body = strip_comments(open(os.path.join(THEORIES, f)).read())
            st['obligations'] += len(re.findall(r'^\s*(?:Theorem|Lemma|Corollary|Example|Fact|Remark|Proposition)\s', body, re.M))
        if not built:
            bad = [e for e in getattr(self, 'coq_errors', [])]
            st['error'] = '; '.join('%s:%s %s' % (f, l, ' '.join(msg.split())) for f, l, msg in bad)[:600]
            # Does the failure concern this property's closure?
            concerned = [e for e in bad if any(e[0].endswith(c) for c in closure)]
            if bad and not concerned:
                # another property's file is broken: try to compile this one's closure alone
                ok = True
                with Lock('coq'):
                    for f in closure:
                        rc, out, err = run(['timeout', '3000', 'make', f[:-2] + '.vo'.replace('.vo', '') + '.vo'], cwd=COQ) if False else run(
                            ['timeout', '3000', 'make', os.path.join('theories', f) + 'o'], cwd=COQ)
                        if rc != 0:
                            ok = False
                            st['error'] = (out + err)[-600:]
                            break
                built = ok
        if built:
            with Lock('coq'):
                rc, out, err = run(['timeout', '1200', 'coqc', '-Q', 'theories', 'NA',
                                    '-w', '-deprecated-hint-without-locality,-deprecated-instance-without-locality',
                                    os.path.join('theories', propfile)], cwd=COQ)
            st['closed'] = out.count('Closed under the global context')
            ax = re.findall(r'Axioms:\n((?:.+\n)+)', out)
            for block in ax:
                for line in block.splitlines():
                    m = re.match(r'^(\S+)\s*:', line)
                    if m:
                        st['axioms'].append(m.group(1))
            bad_ax = [a for a in st['axioms'] if a not in ALLOWED_AXIOMS]
            st['ok'] = (rc == 0 and not st['forbidden'] and not bad_ax and
                        st['closed'] + len(re.findall(r'Axioms:', out)) == len(st['theorems'])
                        and len(st['theorems']) > 0)
            if rc != 0:
                st['error'] = (out + err)[-600:]
            st['discharged'] = st['obligations'] if st['ok'] else 0
        if not st['ok']:
            self.broken.append('proof obligations of %s do not check: %s' %
                               (propfile, st.get('error') or st['forbidden'] or st['axioms'] or 'theorem/assumption count'))
        self.pstat = st
        return st

    def coq_eval(self, name, text, timeout=1500):
        """Compile a generated case file (outside the project tree) and return stdout."""
        path = os.path.join(self.work, name + '.v')
        with open(path, 'w') as fh:
            fh.write(text)
        rc, out, err = run(['timeout', str(timeout), 'coqc', '-Q', THEORIES, 'NA',
                            '-w', '-all', path], cwd=self.work)
        if rc != 0:
            raise RuntimeError('coqc failed on %s: %s' % (path, (out + err)[-1500:]))
        return out

    def wall(self):
        return round(time.time() - self.t0, 2)


def strip_comments(s):
    out, depth, i = [], 0, 0
    while i < len(s):
        if s.startswith('(*', i):
            depth += 1
            i += 2
        elif s.startswith('*)', i) and depth:
            depth -= 1
            i += 2
        else:
            if depth == 0:
                out.append(s[i])
            i += 1
    return ''.join(out)


def in_section(body, pos):
    pre = body[:pos]
    return len(re.findall(r'^\s*Section\s', pre, re.M)) > len(re.findall(r'^\s*End\s', pre, re.M))


def dep_closure(propfile):
    seen, todo = [], [propfile]
    while todo:
        f = todo.pop()
        if f in seen or not os.path.exists(os.path.join(THEORIES, f)):
            continue
        seen.append(f)
        body = strip_comments(open(os.path.join(THEORIES, f)).read())
        for m in re.finditer(r'From\s+NA\s+Require\s+(?:Import\s+|Export\s+)?(.*?)\.(?=\s|$)', body, re.S):
            for mod in m.group(1).split():
                todo.append(mod.replace('.', '/') + '.v')
    return sorted(seen)


# ---- Coq term printing ----
def cN(n):
    return '%d%%N' % n

def cZ(n):
    return '(%d)%%Z' % n

def cnat(n):
    return '%d%%nat' % n

def cbool(b):
    return 'true' if b else 'false'

def clist(items):
    return '[' + '; '.join(items) + ']'

def copt(x, f):
    return 'None' if x is None else '(Some %s)' % f(x)

def parse_nat_list(out, key=None):
    """Parse `= [1; 2]` (possibly wrapped) printed by Eval/Print for a list of nat."""
    m = re.search(r'=\s*(\[[^\]]*\]|nil)', out, re.S)
    if not m:
        raise RuntimeError('cannot parse Coq output: ' + out[:400])
    return [int(x) for x in re.findall(r'\d+', re.sub(r'%\w+', '', m.group(1)))]


# ---- known findings ----
def load_findings():
    p = os.path.join(VERIF, 'known-findings.json')
    if not os.path.exists(p):
        return dict(findings=[], fixed=[])
    return json.load(open(p))


def findings_for(prop):
    return [f for f in load_findings().get('findings', []) if f['property'] == prop]


# ---- reporting ----
def write_replay(ctx, kind, payload):
    d = os.path.join(VERIF, 'replays')
    os.makedirs(d, exist_ok=True)
    blob = json.dumps(payload, indent=1, sort_keys=True, default=str)
    h = hashlib.sha1(blob.encode()).hexdigest()[:10]
    path = os.path.join(d, '%s-%s-%s.json' % (ctx.prop, kind, h))
    with open(path, 'w') as fh:
        fh.write(blob + '\n')
    return path


def write_evidence(ctx, coverage, assumptions, violations, level='proof'):
    if os.environ.get('VERIF_EVIDENCE_SKIP'):
        return      # runs against a seeded or otherwise modified tree leave the evidence alone
    os.makedirs(os.path.join(VERIF, 'evidence'), exist_ok=True)
    ev = dict(property_id=ctx.prop, tier=ctx.tier, seed=ctx.seed, level=level,
              coverage=coverage, assumptions=assumptions, wall_s=ctx.wall(),
              violations=violations)
    with open(os.path.join(VERIF, 'evidence', ctx.prop + '.json'), 'w') as fh:
        json.dump(ev, fh, indent=1, default=str)
        fh.write('\n')


def proof_coverage(ctx, extra):
    st = ctx.pstat
    cov = dict(
        obligations=max(1, st['obligations']), discharged=st['discharged'],
        checker_cmd='make -j16 in /verif/coq (coqc 8.16.1, full .vo build) + coqc theories/%s (Print Assumptions)' % st['file'],
        trusted_base=[
            'Coq 8.16.1 kernel (coqc), vm_compute for case evaluation and finite checks; no native_compute',
            'axioms reported by Print Assumptions: %s' % (', '.join(st['axioms']) or 'none (Closed under the global context)'),
            'translators and correspondence harness under /verif (vlib, harness)',
        ],
        theorems=st['theorems'], theorem_files=st.get('closure', []),
        proofs_check=st['ok'])
    cov.update(extra)
    return cov


def finish(ctx, failing, corr_breaks, coverage, assumptions):
    """failing: list of dicts(what, replay payload, finding (id or None)).
    corr_breaks: list of dicts describing correspondence mismatches without a
    property failure.  Prints the verdict lines, writes evidence, returns rc."""
    rc = 0
    known = {}
    nviol = 0
    listed = set(x['id'] for x in findings_for(ctx.prop))
    for f in failing:
        if f.get('finding') and f['finding'] not in listed:
            f['finding'] = None        # only findings listed in known-findings.json are suppressed
        if f.get('finding'):
            known.setdefault(f['finding'], f)
        else:
            nviol += 1
    for fid, f in sorted(known.items()):
        print('KNOWN-FINDING: property=%s %s: %s' % (ctx.prop, fid, f['what']))
    seen = set()
    for f in failing:
        if f.get('finding'):
            continue
        key = f.get('key') or f['what']
        if key in seen:
            continue
        seen.add(key)
        if len(seen) > 5:
            break
        path = write_replay(ctx, 'fail', f['replay'])
        print('VIOLATION property=%s replay=%s' % (ctx.prop, path))
        log('  ' + f['what'])
        rc = 1
    if rc == 0 and (corr_breaks or ctx.broken):
        payload = dict(property=ctx.prop, broken=ctx.broken,
                       correspondence_mismatches=corr_breaks[:5],
                       note='the proof or the model/code correspondence no longer checks; '
                            'the search found no input on which the property itself fails')
        path = write_replay(ctx, 'broken', payload)
        print('VIOLATION property=%s replay=%s no-failing-input-found' % (ctx.prop, path))
        for b in ctx.broken[:5]:
            log('  broken: ' + str(b)[:300])
        for b in corr_breaks[:3]:
            log('  mismatch: ' + json.dumps(b, default=str)[:400])
        nviol += 1
        rc = 1
    coverage['known_findings_hit'] = sorted(known)
    write_evidence(ctx, coverage, assumptions, nviol)
    return rc


def cstr(s):
    """Coq string literal (byte string; the generators only emit ASCII)."""
    return '"' + s.replace('"', '""') + '"'


def cbytes(s):
    """Coq string term for arbitrary bytes (str with surrogateescape or bytes)."""
    if isinstance(s, str):
        s = s.encode('utf-8', 'surrogateescape')
    parts, cur = [], []
    for b in s:
        if b in (9, 10) or 32 <= b <= 126:
            cur.append('""' if b == 34 else chr(b))
        else:
            if cur:
                parts.append('"%s"' % ''.join(cur))
                cur = []
            parts.append('(B %d)' % b)
    if cur or not parts:
        parts.append('"%s"' % ''.join(cur))
    if len(parts) == 1:
        return parts[0]
    return '(' + ' ++ '.join(parts) + ')'


def parse_verdict_list(out, expected_len=None):
    v = parse_nat_list(out)
    if expected_len is not None and len(v) != expected_len:
        raise RuntimeError('verdict count mismatch: %d != %d' % (len(v), expected_len))
    return v
