from vlib import cisco_props


def main(ctx):
    return cisco_props.main(ctx, 'C14')
