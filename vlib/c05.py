"""C05 — Linux approve converges for static routes and iptables.

Proof: coq/theories/Linux/{Model,Proofs}.v, Properties/C05.v.
Tie: generated (device, netspoc[, ipv6][, raw]) file sets are run through the
freshly built `drc`; the printed script must equal the model's output
(correspondence, whole stdout), and the printed `ip route` commands are executed
on the Coq kernel-table semantics (oracle: no command refused, final routes =
target routes, stepwise coverage).  iptables: the generator knows whether the
device text is a kernel re-spelling of the target or a semantically edited one;
`drc` must report a difference exactly in the second case."""
import json, random
from vlib import common as C
from vlib import drcrun

HOPS = ['10.9.1.1', '10.9.1.2', '10.9.2.1', '10.9.3.7']
DSTS = ['10.1.1.0/24', '10.1.2.0/24', '10.20.0.0/16', '10.1.1.5', '10.1.1.6', 'default', '0.0.0.0/0',
        '192.168.0.0/24', '172.16.0.0/12', '10.1.1.0/28', '10.30.1.1/32']
IGNORED = ['10.2.2.0/24 dev eth0 proto kernel scope link src 10.2.2.1',
           '169.254.0.0/16 dev eth0 scope link metric 1000',
           '10.77.0.0/24 via 10.9.1.1 dev eth0 proto 186',
           '10.78.0.0/24 via 10.9.1.9 proto boot']


def gen_routes(rng):
    n = rng.choice([0, 1, 2, 3, 4, 6, 9])
    b = set()
    while len(b) < n:
        b.add((rng.choice(DSTS), rng.choice(HOPS)))
    b = list(b)
    rng.shuffle(b)
    a = list(b)
    for _ in range(rng.choice([0, 0, 1, 2, 3, 5])):
        op = rng.random()
        if op < 0.3 and a:
            a.pop(rng.randrange(len(a)))
        elif op < 0.6:
            a.append((rng.choice(DSTS), rng.choice(HOPS)))
        elif a:
            i = rng.randrange(len(a))
            a[i] = (a[i][0], rng.choice(HOPS))
    a = list(dict.fromkeys(a))
    rng.shuffle(a)

    def line(r, dev):
        s = '%s via %s' % r
        if dev and rng.random() < 0.5:
            s += ' dev eth%d' % rng.randrange(2)
        return s
    al = [line(r, True) for r in a]
    for x in IGNORED:
        if rng.random() < 0.25:
            al.insert(rng.randrange(len(al) + 1), x)
    bl = [line(r, False) for r in b]
    return al, bl


# ---- iptables: a rule is a list of options (neg, key, args) in Netspoc spelling ----
NOARG = ['--log-ip-options', '--log-tcp-options', '--log-uid', '--log-tcp-sequence']


def gen_rule(rng, chains):
    o = []
    if rng.random() < 0.6:
        o.append((rng.random() < 0.15, '-s', [rng.choice(['10.1.1.%d' % rng.randrange(1, 5), '10.1.%d.0/24' % rng.randrange(1, 4)])]))
    if rng.random() < 0.6:
        o.append((rng.random() < 0.1, '-d', [rng.choice(['10.2.1.%d' % rng.randrange(1, 5), '10.2.%d.0/24' % rng.randrange(1, 4)])]))
    if rng.random() < 0.2:
        o.append((False, rng.choice(['-i', '-o']), ['eth%d' % rng.randrange(2)]))
    p = rng.random()
    if p < 0.5:
        proto = rng.choice(['tcp', 'udp', 'TCP'])
        o.append((False, '-p', [proto]))
        if rng.random() < 0.8:
            o.append((False, rng.choice(['--dport', '--dport', '--sport']),
                      [rng.choice(['80', '22', '0080', '1024:', '1024:65535', '137:139', '443'])]))
        if proto.lower() == 'tcp' and rng.random() < 0.2:
            o.append((True, '--syn', []))
    elif p < 0.65:
        o.append((False, '-p', [rng.choice(['icmp', 'vrrp', 'ipv6-icmp', '50'])]))
    if rng.random() < 0.2:
        o.append((False, '-m', ['state']))
        o.append((False, '--state', [rng.choice(['ESTABLISHED,RELATED', 'NEW', 'RELATED,ESTABLISHED,NEW'])]))
    t = rng.random()
    if t < 0.45:
        o.append((False, '-j', ['ACCEPT']))
    elif t < 0.65:
        o.append((False, '-j', ['DROP']))
    elif t < 0.75 and chains:
        o.append((False, '-j', [rng.choice(chains)]))
    elif t < 0.87:
        o.append((False, '-j', ['LOG']))
        o.append((False, '--log-level', [rng.choice(['debug', '7', 'info'])]))
        if rng.random() < 0.5:
            # options without argument
            o.append((False, rng.choice(NOARG), []))
    else:
        o.append((False, '-j', ['MARK']))
        if rng.random() < 0.7:
            o.append((False, '--set-mark', [rng.choice(['10', '0xa', '255', '0x1F'])]))
        else:
            # xmark: without mask or with the default mask it is set-mark; any other mask is something else
            o.append((False, '--set-xmark', [rng.choice(['0xa', '0x1F/0xFFFFFFFF', '0x1/0xff', '0xa/0xf0', '0xa/0xffff'])]))
    return o


def render_rule(chain, opts, rng=None, kernel=False):
    """Text of a rule; kernel=True applies the re-spellings iptables-save uses."""
    words = ['-A', chain]
    proto = None
    for neg, k, args in opts:
        args = list(args)
        if k == '-p':
            proto = args[0].lower()
        if kernel:
            if k in ('-s', '-d') and '/' not in args[0]:
                args[0] += '/32'
            if k == '-p':
                args[0] = args[0].lower()
            if k in ('--dport', '--sport'):
                if proto:
                    words += ['-m', proto]
                if args[0].endswith(':'):
                    args[0] += '65535'
                args[0] = ':'.join(str(int(x)) if x else x for x in args[0].split(':'))
            if k == '--state':
                args[0] = ','.join(reversed(sorted(args[0].split(','))))
            if k == '--set-mark':
                args = ['0x%x/0xffffffff' % int(args[0], 0)]
                k = '--set-xmark'
            elif k == '--set-xmark':
                v, _, m = args[0].partition('/')
                args = ['0x%x/0x%x' % (int(v, 0), int(m, 0) if m else 0xffffffff)]
            if k == '--log-level' and args[0] == 'debug':
                args[0] = '7'
            if k == '--syn' and neg:
                words += ['!', '--tcp-flags', 'FIN,SYN,RST,ACK', 'SYN']
                continue
        if neg and args and kernel and rng is not None and rng.random() < 0.5:
            words += [k, '!'] + args        # old placement: -s ! 10.1.1.1
        else:
            words += (['!'] if neg else []) + [k] + args
    return ' '.join(words)


def gen_tables(rng):
    tabs = {}
    for tn in rng.choice([['filter'], ['filter'], ['filter', 'nat'], ['filter', 'mangle'], []]):
        user = ['c%d' % i for i in range(rng.choice([0, 0, 1, 2]))]
        std = {'filter': ['INPUT', 'FORWARD', 'OUTPUT'], 'nat': ['PREROUTING', 'POSTROUTING'],
               'mangle': ['PREROUTING', 'FORWARD']}[tn]
        ch = {}
        for c in std:
            ch[c] = dict(policy=rng.choice(['DROP', 'DROP', 'ACCEPT']), rules=[])
        for c in user:
            ch[c] = dict(policy='-', rules=[])
        for c in ch:
            for _ in range(rng.choice([0, 1, 2, 3, 5])):
                ch[c]['rules'].append(gen_rule(rng, user))
            if ch[c]['policy'] != '-' and rng.random() < 0.4:
                for _ in range(rng.choice([1, 2])):
                    ch[c]['rules'].append([(False, '-j', ['DROP'])] if rng.random() < 0.7
                                          else [(False, '-s', ['10.9.9.9']), (False, '-j', ['DROP'])])
        tabs[tn] = ch
    return tabs


def edit_tables(rng, tabs):
    """A semantic edit of a copy of tabs; returns None if nothing could be edited."""
    t = json.loads(json.dumps(tabs))
    t = {tn: {cn: dict(policy=c['policy'], rules=[[tuple(o) for o in r] for r in c['rules']]) for cn, c in ch.items()}
         for tn, ch in t.items()}
    if not t:
        t['filter'] = {'INPUT': dict(policy='DROP', rules=[])}
        return t
    tn = rng.choice(sorted(t))
    cn = rng.choice(sorted(t[tn]))
    c = t[tn][cn]
    op = rng.random()
    if op < 0.15 and c['policy'] != '-':
        c['policy'] = 'ACCEPT' if c['policy'] == 'DROP' else 'DROP'
    elif op < 0.3:
        c['rules'].insert(rng.randrange(len(c['rules']) + 1), gen_rule(rng, []))
    elif op < 0.45 and c['rules']:
        c['rules'].pop(rng.randrange(len(c['rules'])))
    elif op < 0.55:
        t[tn]['zz%d' % rng.randrange(3)] = dict(policy='-', rules=[])
    elif op < 0.6:
        t['raw'] = {'PREROUTING': dict(policy='ACCEPT', rules=[])}
    elif c['rules']:
        i = rng.randrange(len(c['rules']))
        r = list(c['rules'][i])
        j = rng.randrange(len(r))
        neg, k, args = r[j]
        m = rng.random()
        marks = [x for x in range(len(r)) if r[x][1] == '--set-mark']
        noarg = [x for x in range(len(r)) if r[x][1] in NOARG]
        if noarg and rng.random() < 0.6:
            # another option without argument in its place: same number of options, no value differs
            x = noarg[0]
            r[x] = (False, rng.choice([n for n in NOARG if n != r[x][1]]), [])
            c['rules'][i] = r
            return t
        if marks and rng.random() < 0.5:
            # the same value written with a mask that is not the default one
            x = marks[0]
            r[x] = (False, '--set-xmark', ['0x%x/0xff' % int(r[x][2][0], 0)])
        elif m < 0.3:
            r[j] = (not neg, k, args)
        elif m < 0.6 and args:
            r[j] = (neg, k, [args[0] + '9'] + list(args[1:]))
        elif m < 0.8 and len(r) > 1:
            r.pop(j)
        else:
            keys = set(x[1] for x in r)
            k2 = '-i' if '-i' not in keys else ('-o' if '-o' not in keys else None)
            if k2 is None:
                return None
            r.insert(j, (False, k2, ['eth7']))
        if [tuple(x) for x in r] == [tuple(x) for x in c['rules'][i]]:
            return None
        c['rules'][i] = r
    else:
        return None
    return t


def sem_norm(tabs):
    """Canonical form used to decide whether an edit changed the meaning."""
    def opt(o):
        neg, k, a = o
        a = list(a)
        if k in ('-s', '-d') and a[0].endswith('/32'):
            a[0] = a[0][:-3]
        if k == '-p':
            a[0] = {'vrrp': '112', 'ipv6-icmp': '58'}.get(a[0].lower(), a[0].lower())
        if k in ('--dport', '--sport'):
            x = a[0].lstrip('0')
            if x.endswith(':65535'):
                x = x[:-5]
            a[0] = x
        if k == '--state':
            a[0] = ','.join(sorted(a[0].split(',')))
        if k == '--set-xmark':
            v, _, m = a[0].partition('/')
            if not m or m.lower() == '0xffffffff':
                k, a[0] = '--set-mark', v
        if k == '--set-mark':
            a[0] = str(int(a[0], 0))
        if k == '--log-level' and a[0] == 'debug':
            a[0] = '7'
        return (neg, k, tuple(a))
    return {tn: {cn: (c['policy'], [sorted(opt(o) for o in r) for r in c['rules']]) for cn, c in ch.items()}
            for tn, ch in tabs.items()}


def render_tables(tabs, rng=None, kernel=False, append=None):
    lines = []
    for tn in (sorted(tabs) if kernel or rng is None or rng.random() < 0.7 else sorted(tabs, reverse=True)):
        ch = tabs[tn]
        lines.append('*' + tn)
        for cn in ch:
            lines.append(':%s %s%s' % (cn, ch[cn]['policy'], ' [0:0]' if kernel else ''))
        for cn in ch:
            for i, r in enumerate(ch[cn]['rules']):
                if append and append.get((tn, cn)) == i:
                    lines.append('[APPEND]')
                lines.append(render_rule(cn, r, rng, kernel))
        lines.append('COMMIT')
    return lines


def gen_raw(rng, tabs):
    """A raw part for existing standard chains (and sometimes a new chain / table)."""
    raw, app = {}, {}
    if not tabs:
        return None, None
    tn = rng.choice(sorted(tabs))
    cands = [c for c in tabs[tn] if tabs[tn][c]['policy'] != '-']
    if not cands:
        return None, None
    raw[tn] = {}
    first_append = None
    for cn in rng.sample(cands, rng.randint(1, len(cands))):
        n = rng.choice([1, 2, 3])
        raw[tn][cn] = dict(policy=tabs[tn][cn]['policy'], rules=[gen_rule(rng, []) for _ in range(n)])
    if rng.random() < 0.3:
        raw[tn]['rawchain'] = dict(policy='-', rules=[gen_rule(rng, [])])
    # [APPEND] applies to every rule after it inside the table
    if rng.random() < 0.6:
        order = [(cn, i) for cn in raw[tn] for i in range(len(raw[tn][cn]['rules']))]
        k = rng.randrange(len(order))
        app[(tn, order[k][0])] = order[k][1]
        first_append = k
    if rng.random() < 0.1:
        raw['rawtable'] = {'X': dict(policy='ACCEPT', rules=[gen_rule(rng, [])])}
    return raw, (app, first_append)


# ---- structures handed to Coq ----
def struct_tables(tabs, kernel=False, rng=None, appinfo=None, lines=None):
    """rtable list (sorted) for the text `lines` that was produced by render_tables."""
    out = {}
    cur, append = None, False
    for ln in lines:
        if ln.startswith('*'):
            cur = ln[1:]
            out[cur] = {}
            append = False
        elif ln.startswith(':'):
            w = ln[1:].split()
            out[cur][w[0]] = dict(policy=w[1], rules=[])
        elif ln == '[APPEND]':
            append = True
        elif ln.startswith('-A'):
            w = ln.split()
            out[cur][w[1]]['rules'].append((ln, w[2:], append))
    return out


def c_rconfig(route_lines, tabs_struct):
    routes = C.clist(['(%s, %s)' % (C.cstr(r), C.clist([C.cstr(w) for w in r.split()])) for r in route_lines])
    tl = []
    for tn in sorted(tabs_struct):
        cl = []
        for cn in sorted(tabs_struct[tn]):
            c = tabs_struct[tn][cn]
            rl = ['{| rr_orig := %s; rr_words := %s; rr_append := %s |}' %
                  (C.cstr(o), C.clist([C.cstr(w) for w in ws]), C.cbool(ap)) for o, ws, ap in c['rules']]
            cl.append('{| rc_name := %s; rc_policy := %s; rc_rules := %s |}' % (C.cstr(cn), C.cstr(c['policy']), C.clist(rl)))
        tl.append('{| rt_name := %s; rt_chains := %s |}' % (C.cstr(tn), C.clist(cl)))
    return '{| rc_routes := %s; rc_tables := %s |}' % (routes, C.clist(tl))


def gen_case(rng):
    al, bl = gen_routes(rng)
    tabs = gen_tables(rng)
    raw, appinfo = (gen_raw(rng, tabs) if rng.random() < 0.35 else (None, None))
    v6 = gen_tables(rng) if rng.random() < 0.1 else None
    # target = merge of the parts, computed by the harness only to produce the device text
    # (device = kernel spelling of the effective target, possibly edited)
    return dict(al=al, bl=bl, tabs=tabs, raw=raw, app=appinfo, v6=v6, edit=rng.random() < 0.5,
                seed=rng.randrange(10 ** 9))


def corpus():
    """fixed cases run first: semantic edits that earlier seeded changes turned into 'device unchanged'"""
    out = []

    def case(rule, edited, seed):
        tabs = {'filter': {'INPUT': dict(policy='DROP', rules=[rule, [(False, '-j', ['ACCEPT'])]])}}
        forced = {'filter': {'INPUT': dict(policy='DROP', rules=[edited, [(False, '-j', ['ACCEPT'])]])}}
        return dict(al=[], bl=[], tabs=tabs, raw=None, app=None, v6=None, edit=True, seed=seed, forced=forced)
    # a mark set under a mask is not the plain mark (seed C05-2)
    out.append(case([(False, '-s', ['10.1.1.1']), (False, '-j', ['MARK']), (False, '--set-mark', ['10'])],
                    [(False, '-s', ['10.1.1.1']), (False, '-j', ['MARK']), (False, '--set-xmark', ['0xa/0xff'])], 11))
    out.append(case([(False, '-j', ['MARK']), (False, '--set-xmark', ['0x1/0xff'])],
                    [(False, '-j', ['MARK']), (False, '--set-xmark', ['0x1/0xffff'])], 12))
    # another option without argument in the place of one (seed C05-3)
    out.append(case([(False, '-j', ['LOG']), (False, '--log-level', ['7']), (False, '--log-ip-options', [])],
                    [(False, '-j', ['LOG']), (False, '--log-level', ['7']), (False, '--log-tcp-options', [])], 13))
    return out


def build_files(case):
    rng = random.Random(case['seed'])
    net_lines = render_tables(case['tabs'], rng)
    raw_lines = render_tables(case['raw'], None, False, case['app'][0]) if case['raw'] else None
    v6_lines = render_tables(case['v6'], rng) if case['v6'] else None
    return net_lines, raw_lines, v6_lines


def main(ctx):
    st = ctx.proof_status()
    ok_build = ctx.build_impl()
    n = 250 if ctx.tier == 'quick' else 5000
    failing, breaks, cov = [], [], {}
    if ok_build:
        cases = corpus() + [gen_case(ctx.rng) for _ in range(n)]
        # pass 1: effective target text via drc against an empty device (gives the merged restore file)
        files = [build_files(c) for c in cases]
        jobs1 = []
        for c, (net, raw, v6) in zip(cases, files):
            jobs1.append(dict(model='Linux', device='', netspoc='\n'.join(net) + '\n',
                              ipv6=('\n'.join(v6) + '\n') if v6 else None,
                              raw=('\n'.join(raw) + '\n') if raw else None))
        res1 = drcrun.run_many(ctx, jobs1)
        jobs2, meta = [], []
        for c, (net, raw, v6), r1 in zip(cases, files, res1):
            rng = random.Random(c['seed'] + 1)
            # effective target rules as printed in the restore file of pass 1
            eff = [ln for ln in r1['out'].split('\n') if ln and not ln.startswith('#') and not ln.startswith('iptables differs')
                   and not ln.startswith('ip route')]
            eff_struct = struct_tables(None, lines=eff)
            # device text = kernel re-spelling of the effective target (rule by rule), possibly edited
            tabs_eff = {}
            ok = True
            dev_ipt = []
            expect_equal = True
            src = c['tabs']
            if c['raw'] or c['v6'] or r1['rc'] != 0:
                # merged target: re-spell only trivially (chain counters), keep rule text
                for tn in sorted(eff_struct):
                    dev_ipt.append('*' + tn)
                    for cn in eff_struct[tn]:
                        dev_ipt.append(':%s %s [12:3456]' % (cn, eff_struct[tn][cn]['policy']))
                    for cn in eff_struct[tn]:
                        for o, ws, ap in eff_struct[tn][cn]['rules']:
                            dev_ipt.append(o)
                    dev_ipt.append('COMMIT')
                if c['edit'] and dev_ipt:
                    rules = [i for i, ln in enumerate(dev_ipt) if ln.startswith('-A')]
                    if rules:
                        i = rng.choice(rules)
                        if rng.random() < 0.5:
                            dev_ipt.pop(i)
                        else:
                            dev_ipt[i] = dev_ipt[i] + (' -i eth9' if ' -i ' not in dev_ipt[i] else (' -o eth9' if ' -o ' not in dev_ipt[i] else ' --comment x'))
                        expect_equal = False
            else:
                t2 = src
                if c.get('forced') is not None:
                    t2 = c['forced']
                    expect_equal = False
                elif c['edit']:
                    e = edit_tables(rng, src)
                    if e is not None and sem_norm(e) != sem_norm(src):
                        t2 = e
                        expect_equal = False
                dev_ipt = render_tables(t2, rng, kernel=True)
                dev_ipt = ['# Generated by iptables-save v1.8.7'] + dev_ipt
            device = '\n'.join(['ip route add ' + r for r in c['al']] + dev_ipt) + '\n'
            netspoc = '\n'.join(['ip route add ' + r for r in c['bl']] + net) + '\n'
            jobs2.append(dict(model='Linux', device=device, netspoc=netspoc,
                              ipv6=('\n'.join(v6) + '\n') if v6 else None,
                              raw=('\n'.join(raw) + '\n') if raw else None))
            meta.append(dict(expect_equal=expect_equal, dev_ipt=dev_ipt, net=net, raw=raw, v6=v6))
        res2 = drcrun.run_many(ctx, jobs2)
        # Coq cases
        ctexts, icount = [], 0
        for c, m, job, r in zip(cases, meta, jobs2, res2):
            dev_struct = struct_tables(None, lines=m['dev_ipt'])
            parts = [c_rconfig(c['bl'], struct_tables(None, lines=m['net']))]
            if m['v6']:
                parts.append(c_rconfig([], struct_tables(None, lines=m['v6'])))
            if m['raw']:
                parts.append(c_rconfig([], struct_tables(None, lines=m['raw'])))
            lines = r['out'].split('\n')
            if lines and lines[-1] == '':
                lines.pop()
            icmds = []
            for ln in lines:
                if ln.startswith('ip route '):
                    if '\\N ' in ln:
                        x, y = ln.split('\\N ', 1)
                        x, y = x[len('ip route del '):], y[len('ip route add '):]
                        icmds.append('IRepl %s %s %s %s' % (C.cstr(x), C.clist([C.cstr(w) for w in x.split()]),
                                                           C.cstr(y), C.clist([C.cstr(w) for w in y.split()])))
                    else:
                        kind = 'IAdd' if ln.startswith('ip route add ') else 'IDel'
                        x = ln[len('ip route add '):]
                        icmds.append('%s %s %s' % (kind, C.cstr(x), C.clist([C.cstr(w) for w in x.split()])))
            out = 'None' if r['rc'] != 0 else '(Some %s)' % C.clist([C.cstr(x) for x in lines])
            ctexts.append('{| k_dev := %s; k_parts := %s; k_out := %s; k_cmds := %s |}' %
                          (c_rconfig(c['al'], dev_struct), C.clist(parts), out, C.clist(['(%s)' % x for x in icmds])))
        verdicts = []
        shard = 125
        for s in range(0, len(ctexts), shard):
            text = ('From Coq Require Import List String.\nFrom NA Require Import Base.Str Linux.Model Linux.Check.\n'
                    'Import ListNotations.\nOpen Scope string_scope.\n'
                    'Definition cases : list case := %s.\nDefinition V := Eval vm_compute in verdicts cases.\nPrint V.\n'
                    % C.clist(ctexts[s:s + shard]))
            v = C.parse_verdict_list(ctx.coq_eval('cases_c05_%d' % s, text), 2 * len(ctexts[s:s + shard]))
            verdicts += [(v[i], v[i + 1]) for i in range(0, len(v), 2)]
        nontriv = set()
        for c, m, job, r, (cm, om) in zip(cases, meta, jobs2, res2, verdicts):
            rep = dict(property='C05', files=dict(device=job['device'], netspoc=job['netspoc'], ipv6=job['ipv6'], raw=job['raw']),
                       model='Linux', command='drc -q device code/router', stdout=r['out'], stderr=r['err'][-600:], rc=r['rc'])
            if r['panic'] or r['rc'] == 'hang':
                failing.append(dict(what='drc crashed or hung', replay=rep, finding=None, key='crash'))
                continue
            has_msg = 'iptables differs' in r['out']
            if om:
                why = {1: 'an emitted ip route command is refused by the kernel table (route present / absent)',
                       2: 'executing the emitted ip route commands does not yield the target routes',
                       3: 'a destination routed before and after loses its route at an intermediate step',
                       4: 'an address covered by a route before and after is not covered at an intermediate step'}[om]
                rep['oracle'] = 'Linux.Check.oracle_routes = %d: %s' % (om, why)
                failing.append(dict(what=why, replay=rep, finding=None, key='routes%d' % om))
            elif r['rc'] == 0 and has_msg == m['expect_equal']:
                why = ('drc reports an iptables difference although the device text is a kernel re-spelling of the target'
                       if has_msg else 'drc reports no iptables change although the device ruleset differs from the target')
                rep['oracle'] = why
                failing.append(dict(what=why, replay=rep, finding=None, key='ipt%d' % has_msg))
            elif cm:
                breaks.append(dict(correspondence='Linux.Model.drc_output vs drc', case=rep))
            if r['out'].strip():
                nontriv.add(r['out'])
        cov = dict(evaluations=len(cases), distinct_nontrivial=len(nontriv),
                   rule='random route sets (several routes per destination, default routes, ignored kernel/link routes) and '
                        'iptables rulesets in Netspoc spelling vs kernel spelling, optional raw/IPv6 parts; '
                        'non-trivial = drc printed a non-empty script; distinct by script text',
                   traces_validated_against_impl=len(cases), correspondence_mismatches=len(breaks),
                   aborted_runs=sum(1 for r in res2 if r['rc'] not in (0,)),
                   with_raw=sum(1 for c in cases if c['raw']), edited_device=sum(1 for m in meta if not m['expect_equal']),
                   samples=[dict(device=jobs2[0]['device'], netspoc=jobs2[0]['netspoc'], raw=jobs2[0]['raw'], stdout=res2[0]['out'])])
    cov = C.proof_coverage(ctx, cov)
    assumptions = [
        'kernel routing table model: `ip route add` fails iff the same (destination, next hop) is present, `del` iff absent; '
        'a joined del/add line is one step',
        'kernel spelling of rules (kernel_spell) is the list of re-spellings named in the property; no iptables binary in the sandbox',
        'slices.SortFunc is stable for at most 12 routes (insertion sort); the generator stays below that',
        'target route lists are duplicate-free (theorem hypothesis NoDup)',
    ]
    return C.finish(ctx, failing, breaks, cov, assumptions)
