"""C10 for NSX and PAN-OS: an approve cut after k of its requests / commands is run
again from the state the strict model (Nsx/Device.v, Panos/Device.v) has after these
k steps; the second script must be accepted, reach a state equivalent to the target
without left-over generated objects, and a third compare must be silent."""
import json
from vlib import common as C
from vlib import nsx as N
from vlib import panos as P
from vlib import c03, c04, drcrun
from vlib.cisco import parse_coq_term

NSX_HDR = ('From Coq Require Import List String.\nFrom NA Require Import Robust.GoStr Panos.Device Nsx.Device.\nImport ListNotations.\n'
           'Open Scope string_scope.\n')
PAN_HDR = ('From Coq Require Import List String.\nFrom NA Require Import Robust.GoStr Panos.Device Panos.Oracle.\nImport ListNotations.\n'
           'Open Scope string_scope.\n')


def nsx_corpus():
    R = N.rule
    out = []
    # two rules share a group on the manager, the target gives the second rule a group of its own: PUT group, PATCH rule;
    # a cut between the two leaves an unused group with the id and the content of the target's group
    t = N.new_conf()
    t['groups'] = {'Netspoc-g0': ['10.1.1.10', '10.1.1.11'], 'Netspoc-g2': ['10.1.2.10', '10.1.2.11', '10.1.2.12']}
    t['policies']['Netspoc-v1'] = [R('r1', N.GP + 'Netspoc-g0', '10.1.1.20', 'ANY'), R('r2', N.GP + 'Netspoc-g2', '10.1.1.21', 'ANY', seq=30)]
    N.finish(t)
    d = N.new_conf()
    d['groups'] = {'Netspoc-g0': ['10.1.1.10', '10.1.1.11']}
    d['policies']['Netspoc-v1'] = [R('r1', N.GP + 'Netspoc-g0', '10.1.1.20', 'ANY'), R('r2', N.GP + 'Netspoc-g0', '10.1.1.21', 'ANY', seq=30)]
    N.finish(d)
    out.append(dict(tgt=t, dev=d, edits=['corpus-shared-group-split']))
    return out


def nsx_resume(ctx, n, max_cases):
    failing, breaks = [], []
    cases = nsx_corpus() + c04.corpus() + [c04.gen_case(ctx.rng) for _ in range(n)]
    jobs = [dict(model='NSX', device=N.conf_json(c['dev']), netspoc=N.conf_json(c['tgt'])) for c in cases]
    res = drcrun.run_many(ctx, jobs)
    sel = []
    for c, job, r in zip(cases, jobs, res):
        if r['rc'] != 0 or r['panic']:
            continue
        reqs, bad = N.parse_requests(r['out'])
        if bad or len(reqs) < 2:
            continue
        sel.append(dict(case=c, job=job, out=r['out'], reqs=reqs))
        if len(sel) >= max_cases:
            break
    if not sel:
        return failing, breaks, dict(nsx_resume_cases=0, nsx_resumed_prefix_states=0)
    items = ['{| nc_dev := %s; nc_tgt := %s; nc_reqs := %s |}' % (N.c_mgr(s['case']['dev']), N.c_mgr(s['case']['tgt']), C.clist(s['reqs'])) for s in sel]
    text = (NSX_HDR + 'Definition pstates (c : ncase) := match nrun_reqs (nc_dev c) (nc_reqs c) 0 with (_, pos, _) => (pos, '
            'map (fun k => nrender (fst (fst (nrun_reqs (nc_dev c) (firstn k (nc_reqs c)) 0)))) (seq 1 (List.length (nc_reqs c) - 1))) end.\n'
            'Definition V := Eval vm_compute in map pstates %s.\nPrint V.\n' % C.clist(items))
    pref = parse_coq_term(ctx.coq_eval('c10_nsx_pre', text))
    jobs2, where = [], []
    for s, (pos, states) in zip(sel, pref):
        if pos:
            continue          # a refused request is a matter of C08
        for k, lines in enumerate(states):
            devk = N.conf_from_render(lines)
            jobs2.append(dict(model='NSX', device=N.conf_json(devk), netspoc=s['job']['netspoc']))
            where.append((s, k + 1, devk))
    res2 = drcrun.run_many(ctx, jobs2)
    items2, meta2 = [], []
    for (s, k, devk), job, r in zip(where, jobs2, res2):
        rep = dict(command='drc -q device code/router (again, on the state after the first %d requests)' % k, model='NSX',
                   files=dict(device=s['job']['device'], netspoc=s['job']['netspoc']), first_script=s['out'], cut_after=k,
                   state_after_cut=job['device'], resumed_script=r['out'], edits=s['case']['edits'])
        if r['panic'] or r['rc'] != 0:
            failing.append(dict(what='NSX: cut after %d requests: the second run rejects the state (%s)' % (k, r['err'][-200:].strip()), replay=rep))
            continue
        reqs, bad = N.parse_requests(r['out'])
        if bad:
            breaks.append(dict(correspondence='request not understood by the NSX model', case=dict(rep, requests=bad[:3])))
            continue
        items2.append('{| nc_dev := %s; nc_tgt := %s; nc_reqs := %s |}' % (N.c_mgr(devk), N.c_mgr(s['case']['tgt']), C.clist(reqs)))
        meta2.append((s, k, rep))
    verdicts = []
    for i in range(0, len(items2), 200):
        text = NSX_HDR + 'Definition V := Eval vm_compute in map njudge %s.\nPrint V.\n' % C.clist(items2[i:i + 200])
        verdicts += parse_coq_term(ctx.coq_eval('c10_nsx_%d' % i, text))
    third, third_meta = [], []
    for (s, k, rep), v in zip(meta2, verdicts):
        (pos, why, conv, left_s, left_g, rendered) = v
        if pos:
            failing.append(dict(what='NSX: cut after %d requests: request %d of the resumed run is refused by the manager: %s' % (k, pos, c04.WHY.get(why, why)),
                                replay=dict(rep, refused_request=pos)))
        elif conv != 'true':
            failing.append(dict(what='NSX: cut after %d requests: the resumed run does not reach the target' % k, replay=dict(rep, final_state=rendered)))
        elif left_s or left_g:
            failing.append(dict(what='NSX: cut after %d requests: the resumed run leaves generated objects behind: services %s, groups %s' % (k, left_s, left_g),
                                replay=dict(rep, final_state=rendered)))
        else:
            third.append(dict(model='NSX', device=N.conf_json(N.conf_from_render(rendered)), netspoc=s['job']['netspoc']))
            third_meta.append((k, rep))
    for (k, rep), job, r in zip(third_meta, third, drcrun.run_many(ctx, third)):
        reqs3, _ = N.parse_requests(r['out'])
        if r['rc'] != 0 or reqs3:
            failing.append(dict(what='NSX: cut after %d requests: a third compare still reports changes' % k, replay=dict(rep, third_compare=r['out'])))
    return failing, breaks, dict(nsx_resume_cases=len(sel), nsx_resumed_prefix_states=len(where))


def panos_corpus():
    """a rule already set under its new unique name but not yet moved: the left-over name must stay taken"""
    R = lambda name, action, src, dst, srv: dict(name=name, action=action, frm='z1', to='z2', src=[src], dst=[dst], srv=[srv], extra='')
    t = P.new_vsys()
    t['rules'] = [R('r1', 'allow', 'IP_10.1.1.11', 'NET_10.1.2.0_24', 'tcp 80'), R('r2', 'deny', 'any', 'NET_10.1.2.0_24', 'any'),
                  R('r3', 'allow', 'IP_10.1.1.13', 'NET_10.1.4.0_24', 'tcp 80')]
    P.finish_objects(t)
    d = P.new_vsys()
    d['rules'] = [R('r1', 'deny', 'any', 'NET_10.1.2.0_24', 'any')]
    P.finish_objects(d)
    return [dict(tgt=[('vsys1', t)], dev=[('vsys1', d)], edits=[['corpus-resume-rule-set-not-moved']])]


def panos_resume(ctx, n, max_cases):
    failing, breaks = [], []
    cases = panos_corpus() + c03.corpus() + [c03.gen_case(ctx.rng) for _ in range(n)]
    jobs = [dict(model='PAN-OS', device=P.config_xml(c['dev']), netspoc=P.config_xml(c['tgt'])) for c in cases]
    res = drcrun.run_many(ctx, jobs)
    sel = []
    for c, job, r in zip(cases, jobs, res):
        if r['rc'] != 0 or r['panic'] or len(c['tgt']) != 1:
            continue
        per, bad = P.parse_script(r['out'])
        name, t = c['tgt'][0]
        ops = per.get(name, [])
        if bad or len(ops) < 2 or set(per) - {name}:
            continue
        known = 'sgrp_members_removed' in c03.classify(c, None)
        if known:
            continue          # F-C03-2 / F-C08-1: the first run is already refused
        sel.append(dict(case=c, job=job, out=r['out'], ops=ops, name=name, tgt=t, dev=dict(c['dev'])[name], known=known))
        if len(sel) >= max_cases:
            break
    if not sel:
        return failing, breaks, dict(panos_resume_cases=0, panos_resumed_prefix_states=0)
    items = ['{| pc_dev := %s; pc_tgt := %s; pc_ops := %s |}' % (P.c_vsys(s['dev']), P.c_vsys(s['tgt']), C.clist(s['ops'])) for s in sel]
    text = (PAN_HDR + 'Definition pstates (c : pcase) := match run (pc_dev c) (pc_ops c) 0 with (_, pos, _) => (pos, '
            'map (fun k => render (fst (fst (run (pc_dev c) (firstn k (pc_ops c)) 0)))) (seq 1 (List.length (pc_ops c) - 1))) end.\n'
            'Definition V := Eval vm_compute in map pstates %s.\nPrint V.\n' % C.clist(items))
    pref = parse_coq_term(ctx.coq_eval('c10_pan_pre', text))
    jobs2, where = [], []
    for s, (pos, states) in zip(sel, pref):
        if pos:
            continue
        tab = c03.misc_table(s['case'])
        for k, lines in enumerate(states):
            vk = P.vsys_from_render(lines, tab)
            devs = [(nm, vk if nm == s['name'] else dv) for nm, dv in s['case']['dev']]
            jobs2.append(dict(model='PAN-OS', device=P.config_xml(devs), netspoc=s['job']['netspoc']))
            where.append((s, k + 1, vk, tab))
    res2 = drcrun.run_many(ctx, jobs2)
    items2, meta2 = [], []
    for (s, k, vk, tab), job, r in zip(where, jobs2, res2):
        rep = dict(command='drc -q device code/router (again, on the state after the first %d commands)' % k, model='PAN-OS',
                   files=dict(device=s['job']['device'], netspoc=s['job']['netspoc']), first_script=s['out'], cut_after=k,
                   state_after_cut=job['device'], resumed_script=r['out'], edits=s['case']['edits'])
        fid = None
        if r['panic'] or r['rc'] != 0:
            failing.append(dict(what='PAN-OS: cut after %d commands: the second run rejects the state (%s)' % (k, r['err'][-200:].strip()), replay=rep, finding=fid))
            continue
        per, bad = P.parse_script(r['out'])
        if bad or set(per) - {s['name']}:
            breaks.append(dict(correspondence='command not understood by the PAN-OS device model', case=dict(rep, commands=bad[:3])))
            continue
        items2.append('{| pc_dev := %s; pc_tgt := %s; pc_ops := %s |}' % (P.c_vsys(vk), P.c_vsys(s['tgt']), C.clist(per.get(s['name'], []))))
        meta2.append((s, k, rep, tab, fid))
    verdicts = []
    for i in range(0, len(items2), 200):
        text = PAN_HDR + 'Definition V := Eval vm_compute in map judge %s.\nPrint V.\n' % C.clist(items2[i:i + 200])
        verdicts += parse_coq_term(ctx.coq_eval('c10_pan_%d' % i, text))
    third, third_meta = [], []
    for (s, k, rep, tab, fid), v in zip(meta2, verdicts):
        (pos, why, conv, unused, rendered) = v
        if pos:
            failing.append(dict(what='PAN-OS: cut after %d commands: command %d of the resumed run is refused by the device: %s' % (k, pos, c03.WHY.get(why, why)),
                                replay=dict(rep, refused_command=pos), finding=fid))
        elif conv != 'true':
            failing.append(dict(what='PAN-OS: cut after %d commands: the resumed run does not reach the target' % k, replay=dict(rep, final_state=rendered), finding=fid))
        else:
            fin = P.vsys_from_render(rendered, tab)
            devs = [(nm, fin if nm == s['name'] else dv) for nm, dv in s['case']['dev']]
            third.append(dict(model='PAN-OS', device=P.config_xml(devs), netspoc=s['job']['netspoc']))
            third_meta.append((k, rep, fid))
    for (k, rep, fid), job, r in zip(third_meta, third, drcrun.run_many(ctx, third)):
        per3, _ = P.parse_script(r['out'])
        if r['rc'] != 0 or per3:
            failing.append(dict(what='PAN-OS: cut after %d commands: a third compare still reports changes' % k, replay=dict(rep, third_compare=r['out']), finding=fid))
    return failing, breaks, dict(panos_resume_cases=len(sel), panos_resumed_prefix_states=len(where))
