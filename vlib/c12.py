"""C12 — at most one approve or compare session per device at any time.

Proof: coq/theories/Lock/{Model,Proofs}.v, Properties/C12.v (incl. the call
order regenerated from the Go source).  Tie: real processes — a holder parked by
the device simulator in one of its phases, contenders started through both
front-ends and spellings of the device, holder released or killed."""
import hashlib, json, os, shutil, signal, subprocess, time
from concurrent.futures import ThreadPoolExecutor
from vlib import common as C
from vlib import session as S


def snapshot(base):
    out = {}
    for sub in ('status', 'history', 'policies/p1/log', 'log'):
        d = os.path.join(base, sub)
        for root, _, fs in os.walk(d):
            for f in fs:
                p = os.path.join(root, f)
                try:
                    out[os.path.relpath(p, base)] = hashlib.sha1(open(p, 'rb').read()).hexdigest()
                except OSError:
                    pass
    return out


def prepare(ctx, idx):
    d = os.path.join(ctx.work, 'lock%d' % idx)
    shutil.rmtree(d, ignore_errors=True)
    code = os.path.join(d, 'policies', 'p1', 'code')
    os.makedirs(code)
    os.symlink('p1', os.path.join(d, 'policies', 'current'))
    for sub in ('lock', 'status', 'history'):
        os.makedirs(os.path.join(d, sub))
    with open(os.path.join(d, '.netspoc-approve'), 'w') as fh:
        fh.write('basedir = %s\nsystemuser = admin\ntimeout = 20\nlogin_timeout = 20\ncheckbanner = NetSPoC\n' % d)
    with open(os.path.join(d, 'credentials'), 'w') as fh:
        fh.write('* admin secret\n')
    with open(os.path.join(code, 'router'), 'w') as fh:
        fh.write(S.IOS_TGT)
    with open(os.path.join(code, 'router.info'), 'w') as fh:
        json.dump(dict(model='IOS', name_list=['router'], ip_list=['10.1.13.33']), fh)
    return d


def scenario(d, tag, gate=None):
    sc = dict(family='IOS', hostname='router', banner='managed by NetSPoC', enable='nopass',
              transcript=os.path.join(d, 'transcript.' + tag), config=S.IOS_DEV, faults=[], banners=[])
    if gate:
        sc['gate'] = gate
    p = os.path.join(d, 'sc.%s.json' % tag)
    with open(p, 'w') as fh:
        json.dump(sc, fh)
    return p


def command(ctx, d, front, mode, spelling):
    if front == 'do-approve':
        return [os.path.join(ctx.bin, 'do-approve'), mode, 'router']
    path = {'rel': 'policies/p1/code/router', 'abs': os.path.join(d, 'policies/p1/code/router'),
            'current': os.path.join(d, 'policies/current/code/router'), 'dot': './policies/p1/code/../code/router'}[spelling]
    return [os.path.join(ctx.bin, 'drc'), '-L', os.path.join(d, 'policies/p1/log')] + (['-C'] if mode == 'compare' else []) + [path]


def start(ctx, d, tag, front, mode, spelling, gate=None):
    scp = scenario(d, tag, gate)
    env = dict(os.environ, HOME=d, SIMULATE_ROUTER='python3 %s %s' % (S.SIM, scp), TEST_TIME='2024-Sep-29 16:19:50')
    # garbage collection is part of the schedule: with GOGC=1 the Go runtime collects (and runs finalizers, e.g. of a
    # lock file handle that is no longer referenced) all the time instead of once a session is some megabytes old
    env['GOGC'] = '1'
    return subprocess.Popen(command(ctx, d, front, mode, spelling), cwd=d, env=env, stdout=subprocess.PIPE, stderr=subprocess.PIPE,
                            start_new_session=True)


def lines(d, tag):
    p = os.path.join(d, 'transcript.' + tag)
    if not os.path.exists(p):
        return 0
    return sum(1 for l in open(p) if '"recv"' in l)


def one_case(ctx, idx, holder, phase, contenders, ending):
    """Returns (ok, description, details)."""
    d = prepare(ctx, idx)
    gate = dict(at=phase, file=os.path.join(d, 'gate'))
    H = start(ctx, d, 'H', holder[0], holder[1], holder[2], gate)
    t0 = time.time()
    while not os.path.exists(gate['file'] + '.reached') and time.time() - t0 < 20 and H.poll() is None:
        time.sleep(0.02)
    details = dict(holder=holder, phase=phase, contenders=contenders, ending=ending, events=[])
    problems = []
    if not os.path.exists(gate['file'] + '.reached'):
        details['events'].append('holder never reached line %d (rc=%s)' % (phase, H.poll()))
        # the script is shorter than the requested phase: nothing to check
        try:
            H.wait(timeout=20)
        except subprocess.TimeoutExpired:
            H.kill()
        shutil.rmtree(d, ignore_errors=True)
        return True, 'phase beyond the dialogue', details
    for ci, c in enumerate(contenders):
        snap0 = snapshot(d)
        n0 = lines(d, 'H')
        Cp = start(ctx, d, 'C%d' % ci, c[0], c[1], c[2])
        try:
            out, err = Cp.communicate(timeout=30)
        except subprocess.TimeoutExpired:
            os.killpg(Cp.pid, signal.SIGKILL)
            out, err = Cp.communicate()
            problems.append('contender %d %s hangs' % (ci, c))
        err = err.decode('utf-8', 'replace')
        snap1 = snapshot(d)
        talked = lines(d, 'C%d' % ci)
        details['events'].append(dict(contender=c, rc=Cp.returncode, stderr=err[-200:], talked_to_device=talked,
                                      files_changed=sorted(k for k in set(snap0) | set(snap1) if snap0.get(k) != snap1.get(k))))
        if Cp.returncode != 1 or 'Approve in progress' not in err:
            problems.append('contender %d %s: rc=%s, message %r' % (ci, c, Cp.returncode, err[-120:]))
        if talked:
            problems.append('contender %d %s talked to the device (%d lines) while the holder is in its session' % (ci, c, talked))
        if snap0 != snap1:
            problems.append('contender %d %s changed %s' % (ci, c, details['events'][-1]['files_changed']))
        if H.poll() is not None:
            problems.append('holder ended while a contender ran (rc=%s)' % H.returncode)
    if ending == 'release':
        open(gate['file'] + '.go', 'w').close()
        try:
            H.wait(timeout=60)
        except subprocess.TimeoutExpired:
            os.killpg(H.pid, signal.SIGKILL)
            problems.append('holder does not finish after release')
        if H.returncode != 0:
            problems.append('holder fails after release: rc=%s %s' % (H.returncode, H.stderr.read().decode('utf-8', 'replace')[-200:]))
    else:
        os.killpg(H.pid, signal.SIGKILL)
        H.wait()
        time.sleep(0.1)
    # the lock is gone with its holder: a later run proceeds
    L = start(ctx, d, 'L', 'do-approve', 'compare', None)
    try:
        out, err = L.communicate(timeout=60)
    except subprocess.TimeoutExpired:
        os.killpg(L.pid, signal.SIGKILL)
        out, err = L.communicate()
    details['events'].append(dict(later_run_rc=L.returncode, stderr=err.decode('utf-8', 'replace')[-200:], talked=lines(d, 'L')))
    if L.returncode != 0 or not lines(d, 'L'):
        problems.append('a run after the holder %s does not proceed: rc=%s %r' % ('exited' if ending == 'release' else 'was killed',
                                                                             L.returncode, err.decode('utf-8', 'replace')[-150:]))
    shutil.rmtree(d, ignore_errors=True)
    return not problems, '; '.join(problems), details


def main(ctx):
    st = ctx.proof_status()
    failing, breaks, cov = [], [], {}
    if ctx.build_impl():
        quick = ctx.tier == 'quick'
        holders = [('do-approve', 'approve', None), ('drc', 'approve', 'rel'), ('do-approve', 'compare', None), ('drc', 'compare', 'abs')]
        conts = [('do-approve', 'compare', None), ('drc', 'approve', 'rel'), ('drc', 'compare', 'current'), ('do-approve', 'approve', None),
                 ('drc', 'approve', 'dot'), ('drc', 'compare', 'abs')]
        phases = [1, 6, 9, 21, 27, 30] if not quick else [1, 8, 21, 30]
        cases = []
        rng = ctx.rng
        for h in holders:
            for ph in phases:
                for ending in ('release', 'kill'):
                    k = 3 if not quick else 2
                    cs = rng.sample(conts, k)
                    # the three-step shape: a rejected do-approve contender first, then others
                    if rng.random() < 0.5:
                        cs = [('do-approve', rng.choice(['approve', 'compare']), None)] + cs[:k - 1]
                    cases.append((h, ph, cs, ending))
        if quick:
            cases = cases[::2] + cases[1::8]
        with ThreadPoolExecutor(8) as ex:
            res = list(ex.map(lambda ic: one_case(ctx, ic[0], *ic[1]), enumerate(cases)))
        for (h, ph, cs, ending), (ok, what, details) in zip(cases, res):
            if not ok:
                failing.append(dict(what=what, replay=dict(property='C12', **details,
                                    how='holder parked by sim/simdev.py at the phase-th received line; contenders started meanwhile; '
                                        'IOS device, do-approve / drc from the current tree'), finding=None, key=what.split(':')[0][:40]))
        cov = dict(evaluations=len(cases), distinct_nontrivial=len(set((str(c[0]), c[1], str(c[2]), c[3]) for c in cases)),
                   rule='holder front-end/mode x phase of its session (login, read, change, save) x 2-3 contenders (do-approve / drc, by name, '
                        'relative path, absolute path, via the current link, with ../) x holder released or killed, then a later run; '
                        'distinct by (holder, phase, contenders, ending)',
                   traces_validated_against_impl=len(cases), samples=[res[0][2]] if res else [])
    cov = C.proof_coverage(ctx, cov)
    return C.finish(ctx, failing, breaks, cov,
                    ['flock(2): exclusive, non-blocking, released when the holder exits or is killed — the lock-table semantics of Lock/Model.v; '
                     'validated by the multi-process runs, not provable here',
                     'key of the lock = basename of the argument for both front-ends'])
