"""Shared driver of the ASA / IOS checks.  One run executes the implementation's
script on the Coq device semantics and evaluates every property predicate; each
property module selects the verdict fields it decides."""
import json, re
from vlib import common as C
from vlib import cisco as K
from vlib import drcrun

WHY = {1: 'a referenced object does not exist', 2: 'an object that is still referenced is deleted',
       3: 'an entry the object already contains is added', 4: 'line / sequence number does not address the stated entry',
       5: 'sub-command outside the configuration mode of its parent', 6: 'command not understood by the device model',
       7: 'second route to the same destination', 8: 'object to be removed does not exist'}


def parse_text(text, ios):
    """Configuration text rendered by Cisco.Oracle.render -> cfg dict."""
    cfg = dict(intfs=[], groups={}, acls={}, binds={}, routes=[], intf_sub={})
    cur = None
    for ln in text:
        if not ln.strip():
            continue
        w = ln.split()
        if ln[0] == ' ':
            if cur and cur[0] == 'grp':
                cfg['groups'][cur[1]][1].append(w)
            elif cur and cur[0] == 'acl':
                cfg['acls'][cur[1]].append(w)
            elif cur and cur[0] == 'intf':
                if w[:2] == ['ip', 'access-group']:
                    cfg['binds'][(cur[1], w[3])] = w[2]
                elif w[0] == 'nameif':
                    cfg['intfs'].append(w[1])
                else:
                    cfg['intf_sub'].setdefault(cur[1], []).append(' '.join(w))
            continue
        cur = None
        if w[0] == 'object-group':
            cfg['groups'][w[2]] = ([w[1]] + w[3:], [])
            cur = ('grp', w[2])
        elif w[0] == 'access-list':
            cfg['acls'].setdefault(w[1], []).append(w[2:])
        elif w[0] == 'access-group':
            cfg['binds'][tuple(w[2:])] = w[1]
        elif w[:3] == ['ip', 'access-list', 'extended']:
            cfg['acls'][w[3]] = []
            cur = ('acl', w[3])
        elif w[0] == 'interface':
            cur = ('intf', w[1])
            if ios:
                cfg['intfs'].append(w[1])
        elif w[0] == 'route' or w[:2] in (['ip', 'route'], ['ipv6', 'route']):
            cfg['routes'].append(w)
    return cfg


def generate(ctx, ios, n, opts):
    cases = []
    for _ in range(n):
        tgt = K.gen_target(ctx.rng, ios, with_groups=opts.get('groups', True), blocks=ios)
        dev, info = K.mutate(ctx.rng, tgt, ios, with_groups=opts.get('groups', True),
                             unmanaged=opts.get('unmanaged', True), max_edits=opts.get('max_edits'))
        cases.append(dict(tgt=tgt, dev=dev, info=info))
    return cases


def classify(case, ios, findings):
    """Known-finding predicates on the input (see known-findings.json)."""
    hit = []
    dev, tgt = case['dev'], case['tgt']
    if 'spare_equal_generated_group' in findings:
        used = set(r for ls in dev['acls'].values() for l in ls for r in K.refs(l))
        tg = [(v[0], sorted(map(tuple, v[1]))) for v in tgt['groups'].values()]
        for g, v in dev['groups'].items():
            if g not in used and '-DRC-' in g and (v[0], sorted(map(tuple, v[1]))) in tg:
                hit.append('spare_equal_generated_group')
                break
    if 'equal_groups_on_device' in findings:
        tg = set((tuple(v[0]), tuple(sorted(map(tuple, v[1])))) for v in tgt['groups'].values())
        seen = {}
        for g, v in dev['groups'].items():
            seen.setdefault((tuple(v[0]), tuple(sorted(map(tuple, v[1])))), []).append(g)
        for key, names in seen.items():
            if len(names) > 1 and key in tg and any('-DRC-' in n for n in names):
                hit.append('equal_groups_on_device')
                break
    return hit


def run_family(ctx, ios, n, opts, resume=0):
    """Returns a list of per-case result dicts."""
    model = 'IOS' if ios else 'ASA'
    cases = opts.get('cases') or generate(ctx, ios, n, opts)
    jobs = [dict(model=model, device=K.render(c['dev'], ios, True), netspoc=K.render(c['tgt'], ios, False)) for c in cases]
    res = drcrun.run_many(ctx, jobs)
    ocs, idx = [], []
    for i, (c, r) in enumerate(zip(cases, res)):
        c['job'], c['run'] = jobs[i], r
        c['script'] = K.parse_script(r['out'], ios) if r['rc'] == 0 else []
        mt, npk = K.packet_table(c['dev'], c['tgt'], ios, ctx.rng) if opts.get('packets') else ([], 0)
        c['oc'] = K.c_ocase(ios, c['dev'], c['tgt'], c['info'], c['script'], mt, npk)
        if r['rc'] == 0:
            ocs.append(c['oc'])
            idx.append(i)
    out = K.eval_ocases(ctx, 'oc_%s' % model, ocs)
    for i, (v, text) in zip(idx, out):
        cases[i]['verdict'] = v
        cases[i]['final'] = text
    # second compare on the resulting configuration
    jobs2, idx2 = [], []
    for i, c in enumerate(cases):
        if c.get('verdict') and c['verdict'][0] == 0:
            jobs2.append(dict(model=model, device='\n'.join(c['final']) + '\n', netspoc=c['job']['netspoc']))
            idx2.append(i)
    for i, r in zip(idx2, drcrun.run_many(ctx, jobs2)):
        cases[i]['second'] = r
    # resumption from every prefix state
    if resume:
        sel = [i for i, c in enumerate(cases) if c.get('verdict') and c['verdict'][0] == 0 and len(c['script']) > 0][:resume]
        pref = K.eval_ocases(ctx, 'pre_%s' % model, [cases[i]['oc'] for i in sel], fn='(fun k => prefix_states k (o_dev k) (o_script k))')
        jobs3, where = [], []
        for i, states in zip(sel, pref):
            for k, text in enumerate(states[:-1]):       # the full script is the plain run
                jobs3.append(dict(model=model, device='\n'.join(text) + '\n', netspoc=cases[i]['job']['netspoc']))
                where.append((i, k + 1, text))
        res3 = drcrun.run_many(ctx, jobs3)
        ocs3 = []
        for (i, k, text), r in zip(where, res3):
            c = cases[i]
            devk = parse_text(text, ios)
            devk['intfs'] = c['dev']['intfs']
            devk['intf_sub'] = c['dev']['intf_sub']
            for key in ('shut', 'extra_header'):      # opaque parts of the header
                if key in c['dev']:
                    devk[key] = c['dev'][key]
            sc = K.parse_script(r['out'], ios) if r['rc'] == 0 else []
            ocs3.append(K.c_ocase(ios, devk, c['tgt'], c['info'], sc, [], 0))
        out3 = K.eval_ocases(ctx, 'res_%s' % model, ocs3) if ocs3 else []
        jobs4 = []
        for (i, k, text), r, (v, ftext) in zip(where, res3, out3):
            jobs4.append(dict(model=model, device='\n'.join(ftext) + '\n', netspoc=cases[i]['job']['netspoc']))
        res4 = drcrun.run_many(ctx, jobs4) if jobs4 else []
        for (i, k, text), r, (v, ftext), r4 in zip(where, res3, out3, res4):
            cases[i].setdefault('resume', []).append(dict(k=k, state=text, run=r, verdict=v, third=r4['out'], rc=r['rc']))
    return cases


def replay_of(prop, c, extra=None):
    d = dict(property=prop, model=c['job']['model'], command='drc -q device code/router',
             files=dict(device=c['job']['device'], netspoc=c['job']['netspoc']),
             stdout=c['run']['out'], stderr=c['run']['err'][-500:], rc=c['run']['rc'],
             verdict=c.get('verdict'), edits=c['info']['edits'])
    if extra:
        d.update(extra)
    return d


def coverage(cases, ios, extra=None):
    scripts = set(c['run']['out'] for c in cases if c['run']['out'].strip())
    edits = {}
    for c in cases:
        for e in c['info']['edits']:
            edits[e] = edits.get(e, 0) + 1
    cov = dict(evaluations=len(cases), distinct_nontrivial=len(scripts),
               rule='random %s targets (1-3 interfaces, shared ACLs, object-groups, routes) and devices derived by edits '
                    '(line insert/delete/move/log flip, group member edits, duplicated/split/left-over groups, rebinding, '
                    'routes, unmanaged content); non-trivial = non-empty script, distinct by script text' % ('IOS' if ios else 'ASA'),
               traces_validated_against_impl=len(cases), edit_kinds=edits,
               script_length_histogram={str(k): sum(1 for c in cases if len(c['script']) == k) for k in range(0, 12)},
               rejected_by_tool=sum(1 for c in cases if c['run']['rc'] != 0),
               samples=[dict(device=cases[0]['job']['device'], netspoc=cases[0]['job']['netspoc'], script=cases[0]['run']['out'])])
    if extra:
        cov.update(extra)
    return cov
