"""Correspondence of Robust/Parse.v with go/pkg/cisco/parse.go: the real
ParseConfig (hook dump, `nah ciscoparse`) and the Gallina model on the same texts."""
import json, os, subprocess
from vlib import common as C

S = C.cbytes


def impl_parse(ctx, jobs):
    """jobs: list of (model, fname, text) -> list of result dicts"""
    inp = json.dumps([dict(Model=m, Fname=f, Data=t) for m, f, t in jobs])
    p = subprocess.run([os.path.join(ctx.bin, 'nah'), 'ciscoparse'], input=inp.encode('utf-8', 'surrogateescape'),
                       stdout=subprocess.PIPE, stderr=subprocess.PIPE, timeout=600)
    if p.returncode != 0:
        raise RuntimeError('nah ciscoparse failed: ' + p.stderr.decode('utf-8', 'replace')[-300:])
    return json.loads(p.stdout.decode('utf-8', 'surrogateescape'))


def xmc(c):
    return '{| x_orig := %s; x_parsed := %s; x_name := %s; x_seq := (%d)%%Z; x_ref := %s; x_append := %s |}' % (
        S(c['Orig']), S(c['Parsed']), S(c['Name']), c['Seq'], C.clist([S(r) for r in c['Ref'] or []]), C.cbool(c['Append']))


def xcmd(c):
    return '{| xc_prefix := %s; xc_m := %s; xc_sub := %s |}' % (S(c['Prefix']), xmc(c), C.clist([xmc(s) for s in c['Sub'] or []]))


def expected(r):
    if r['Panic']:
        if r['Panic'].startswith('runtime: '):
            return 'XPanic'
        return 'XDeliberate %s' % S(r['Panic'])
    if r['Err'] == 'ABORT':
        return 'XAbort'
    if r['Err']:
        return 'XErr %s' % S(r['Err'])
    return 'XConfig %s' % C.clist(['(%s, %s, %s)' % (S(e['Prefix']), S(e['Name']), C.clist([xcmd(c) for c in e['Cmds'] or []]))
                                   for e in r['Config'] or []])


def ascii_only(t):
    try:
        b = t.encode('utf-8', 'surrogateescape')
    except Exception:
        return False
    # bytes >= 0x80 may form Unicode spaces (U+0085, U+00A0, U+2000..) which Go trims and the byte model does not
    return all(x < 0x80 for x in b)


def verdicts(ctx, jobs, results, shard=250, name='c20m'):
    """-> list of verdict numbers (0 agree, 1 class differs, 2 value differs)"""
    out = []
    for k in range(0, len(jobs), shard):
        items = []
        for (m, f, t), r in zip(jobs[k:k + shard], results[k:k + shard]):
            items.append('{| k_ios := %s; k_raw := %s; k_text := %s; k_exp := %s |}' % (
                C.cbool(m == 'IOS'), C.cbool(f.endswith('.raw')), S(t), expected(r)))
        text = ('From Coq Require Import List String ZArith.\nFrom NA Require Import Robust.GoStr Robust.Parse Robust.Check.\n'
                'Import ListNotations.\nOpen Scope string_scope.\n'
                'Definition V := Eval vm_compute in verdicts %s.\nPrint V.\n' % C.clist(items))
        out += C.parse_verdict_list(ctx.coq_eval('%s_%d' % (name, k), text), len(items))
    return out
