"""C17 — passwords and API keys never reach logs, history or terminal."""
import urllib.parse
from vlib import common as C
from vlib import session as S
from vlib import session_props as P

PASSWORDS = ['Pa&ss%w+rd/=#1', 'p@ss:w?rd+x', 'simple-Secret9']
KEY = 'K3y+/SECR3T=='
TOKEN = 'tok+/SESSION=9'


def main(ctx):
    st = ctx.proof_status()
    failing, breaks, cov = [], [], {}
    if ctx.build_impl() and ctx.build_harness():
        quick = ctx.tier == 'quick'
        jobs = []
        for fam in ('ASA', 'IOS', 'Linux', 'PAN-OS', 'NSX'):
            extra = dict(key=KEY, token=TOKEN, enable='pass')
            for pw in PASSWORDS[: (2 if quick else 3)]:
                for front, mode in (('do-approve', 'approve'), ('do-approve', 'compare'), ('drc', 'approve')):
                    jobs.append(dict(fam=fam, front=front, mode=mode, password=pw, sc_extra=dict(extra), timeout_s=1))
                base = P.baseline(ctx, fam, 'do-approve', 'approve', password=pw, sc_extra=dict(extra))
                n = len(P.plan_from(fam, base['tr']))
                kinds = (['error', 'eof'] if fam not in S.HTTP_FAMS else ['status500', 'eof', 'malformed', 'failure', 'stall'])
                for k in range(1, n + 1, 2 if (quick and fam not in S.HTTP_FAMS) else 1):
                    for kind in kinds:
                        if kind == 'stall' and k % 3:
                            continue
                        jobs.append(dict(fam=fam, front='do-approve', mode='approve', password=pw, sc_extra=dict(extra),
                                         faults=[dict(at=k, kind=kind)], timeout_s=1))
                # login rejected
                jobs.append(dict(fam=fam, front='do-approve', mode='approve', password=pw,
                                 sc_extra=dict(extra, reject_password=True), timeout_s=1))
        res = S.run_sessions(ctx, jobs)
        seen = set()
        nleak = 0
        for job, r in zip(jobs, res):
            fam = job['fam']
            secrets = [job['password']]
            if fam == 'PAN-OS':
                secrets.append(KEY)
            if fam == 'NSX':
                secrets.append(TOKEN)
            hits = P.secret_leaks(r, secrets)
            seen.add((fam, job['front'], job['mode'], str(job.get('faults')), r['rc']))
            if hits:
                nleak += 1
                f = (job.get('faults') or [dict(kind='none', at=0)])[0]
                fid = None
                # transport error of a PAN-OS request after login: the error text of net/http embeds the URL with key=...
                if fam == 'PAN-OS' and f['kind'] in ('eof', 'stall') and f['at'] >= 2 and all(h[1] in (KEY, urllib.parse.quote_plus(KEY), urllib.parse.quote(KEY, safe='')) for h in hits):
                    fid = 'F-C17-1'
                failing.append(dict(what='%s %s %s fault=%s: secret found in %s' % (fam, job['front'], job['mode'], f, sorted(set(h[0] for h in hits))[:4]),
                                    replay=dict(property='C17', family=fam, front=job['front'], mode=job['mode'], faults=job.get('faults'),
                                                password=job['password'], key=KEY if fam == 'PAN-OS' else None, places=hits[:10], rc=r['rc'],
                                                stderr=r['err'][-300:]),
                                    finding=fid, key='leak-%s-%s' % (fam, f['kind'])))
        # correspondence of the masking model: the first line of the PAN-OS .login log
        pan = [(job, r) for job, r in zip(jobs, res) if job['fam'] == 'PAN-OS' and job['front'] == 'do-approve']
        terms = C.clist(['mask 200 (login_query %s %s)' % (C.cstr('admin'), C.cstr(job['password'])) for job, r in pan])
        out = ctx.coq_eval('c17mask', 'From Coq Require Import List String.\nFrom NA Require Import Base.Str Secrets.Model.\n'
                           'Import ListNotations.\nOpen Scope string_scope.\nDefinition R := Eval vm_compute in %s.\nPrint R.\n' % terms)
        from vlib import cisco as K
        masked = K.parse_coq_term(out)
        for (job, r), m in zip(pan, masked):
            login = r['files'].get('policies/p1/log/router.login', '')
            first = login.split('\n')[0] if login else ''
            if not first.endswith('/api?' + m):
                breaks.append(dict(correspondence='Secrets.Model.mask vs logged login URL', logged=first, model=m, password=job['password']))
        cov = dict(evaluations=len(jobs), distinct_nontrivial=len(seen),
                   rule='five device types x passwords with characters that need URL escaping x {success, compare, drc} x '
                        'failure kinds at the positions of the dialogue; all files below the base directory, stdout and stderr are scanned for '
                        'the password, the API key and the session token, plain and URL-encoded; distinct by (family, front, mode, fault, exit status)',
                   traces_validated_against_impl=len(jobs), runs_with_leak=nleak,
                   samples=[dict(family=jobs[0]['fam'], password=jobs[0]['password'], files=sorted(res[0]['files']))])
    cov = C.proof_coverage(ctx, cov)
    return C.finish(ctx, failing, breaks, cov,
                    ['simulated devices do not echo passwords (as real devices); the scan covers what the run writes below basedir, stdout and stderr'])
