"""C20 — malformed input ends in a diagnostic, never in a crash.

Proof: coq/theories/Robust/*.v, Properties/C20.v — the Cisco parser (ParseConfig:
line loop, lookupCmd, matchCmd, postprocessParsed, checkReferences) and the route
field extraction with every index/slice expression as an operation that can
panic; no runtime panic for every text and every table that passes tables_ok; the
tables are regenerated from the source on every run (Gen/CiscoTables.v).
Tie: the real ParseConfig (hook dump) against the model on members of the family.
Search: the property's finite family (vlib/c20fam.py) through the built drc,
do-approve and missing-approve."""
import collections, json, os, shutil, subprocess
from concurrent.futures import ThreadPoolExecutor
from vlib import common as C
from vlib import c20fam, c20run, c20model, c20corpus, drcrun
from vlib import session as S

KNOWN = {
    # site of a deliberate panic(...) of the program -> finding id
    ('deliberate-panic', 'codefiles.LoadInfoFile'): 'F-C20-1',
    ('deliberate-panic', 'cisco.matchCmd'): 'F-C20-2',
}


# ---------------------------------------------------------------- do-approve / missing-approve
INFO = json.dumps(dict(model='IOS', name_list=['router'], ip_list=['10.1.13.33']))
STATUS = json.dumps(dict(approve=dict(result='OK', policy='p1', time=1727626790), compare=dict(result='UPTODATE', policy='p1', time=1727626795)))
CONFIG = 'basedir = %(d)s\nsystemuser = admin\ntimeout = 5\nlogin_timeout = 5\ncheckbanner = NetSPoC\n'
CRED = '* admin secret\n'


def approve_family():
    """(label, overrides) — token mutations of the info, status, configuration and credentials files"""
    out = []
    for name, text in (('info', INFO), ('status', STATUS)):
        for lab, new in c20fam.file_mutations(text):
            out.append(('%s-%s' % (name, lab), {name: new}))
    for name, text in (('config', CONFIG), ('cred', CRED)):
        for lab, new in c20fam.file_mutations(text):
            out.append(('%s-%s' % (name, lab), {name: new}))
    seen, res = set(), []
    for lab, ov in out:
        k = json.dumps(ov, sort_keys=True)
        if k not in seen:
            seen.add(k)
            res.append((lab, ov))
    return res


def run_approve_case(ctx, idx, lab, ov):
    d = os.path.join(ctx.work, 'ap%d' % idx)
    shutil.rmtree(d, ignore_errors=True)
    code = os.path.join(d, 'policies', 'p1', 'code')
    os.makedirs(code)
    os.symlink('p1', os.path.join(d, 'policies', 'current'))
    for sub in ('lock', 'status', 'history'):
        os.makedirs(os.path.join(d, sub))
    w = lambda p, t: open(p, 'w', encoding='utf-8', errors='surrogateescape').write(t)
    w(os.path.join(d, '.netspoc-approve'), ov.get('config', CONFIG).replace('%(d)s', d))
    w(os.path.join(d, 'credentials'), ov.get('cred', CRED))
    w(os.path.join(code, 'router'), S.IOS_TGT)
    w(os.path.join(code, 'router.info'), ov.get('info', INFO))
    w(os.path.join(d, 'status', 'router'), ov.get('status', STATUS))
    sc = dict(family='IOS', hostname='router', banner='managed by NetSPoC', enable='nopass', transcript=os.path.join(d, 'transcript'),
              config=S.IOS_DEV, faults=[], banners=[])
    w(os.path.join(d, 'sc.json'), json.dumps(sc))
    env = dict(os.environ, HOME=d, SIMULATE_ROUTER='python3 %s %s' % (S.SIM, os.path.join(d, 'sc.json')), TEST_TIME='2024-Sep-29 16:19:50')
    res = []
    for cmd in (['do-approve', 'compare', 'router'], ['missing-approve'], ['do-approve', 'approve', 'router']):
        try:
            p = subprocess.run([os.path.join(ctx.bin, cmd[0])] + cmd[1:], cwd=d, env=env, stdout=subprocess.PIPE, stderr=subprocess.PIPE, timeout=60)
            rc, err = p.returncode, p.stderr.decode('utf-8', 'replace')
        except subprocess.TimeoutExpired:
            rc, err = 'hang', ''
        res.append((' '.join(cmd), rc) + c20run.classify(rc, err) + (err[:500],))
    shutil.rmtree(d, ignore_errors=True)
    return res


# ---------------------------------------------------------------- main
def select(cases, n):
    if len(cases) <= n:
        return cases
    step = len(cases) / float(n)
    return [cases[int(i * step)] for i in range(n)]


def main(ctx):
    st = ctx.proof_status()
    failing, breaks, cov = [], [], {}
    if ctx.build_impl() and ctx.build_harness():
        quick = ctx.tier == 'quick'
        td = os.path.join(ctx.work, 'td')
        rc, out, err = C.run([os.path.join(ctx.bin, 'nah'), 'testdata', os.path.join(C.REPO, 'go', 'testdata'), td], timeout=300)
        index = json.loads(out) if rc == 0 and out.strip() else []
        if not index:
            breaks.append(dict(correspondence='expansion of the repository test data failed', case=err[-300:]))
        # ---- 1. the family through drc ----
        fam = list(c20fam.family(index, global_dedupe=quick))
        total = len(fam)
        if quick:
            # truncations and deletions are the mutations that shorten a token list: all of them for the parsers
            # without a theorem, a sample for the Cisco parser (theorem + correspondence), a sample of the rest
            short = [c for c in fam if ('trunc' in c['label'] or '-del' in c['label'])]
            other = [c for c in fam if not ('trunc' in c['label'] or '-del' in c['label'])]
            run = ([c for c in short if c['model'] not in ('ASA', 'IOS')] + select([c for c in short if c['model'] in ('ASA', 'IOS')], 1500)
                   + select(other, 2000))
        else:
            run = fam
        run = c20corpus.drc_cases() + run
        res = c20run.run_family(ctx, run)
        classes = collections.Counter()
        bymodel = collections.Counter()
        for case, r in zip(run, res):
            rc_, kind, site, msg, errtxt = r
            classes[kind] += 1
            bymodel[case['model']] += 1
            if kind != 'ok':
                fid = KNOWN.get((kind, site))
                what = '%s in %s (%s) on %s of "%s", mutation %s' % (kind, site, msg[:80], case['file'], case['base'], case['label'])
                if fid:
                    what = '%s: %s — program ends with exit status 2 and a Go trace' % (site, 'deliberate panic(err)')
                failing.append(dict(what=what, finding=fid, key='%s %s' % (kind, site),
                                    replay=dict(property='C20', command='drc device code/router', model=case['model'], files=case['files'],
                                                mutated=case['file'], mutation=case['label'], base=case['base'], exit=rc_, stderr=errtxt)))
        # ---- 2. do-approve / missing-approve ----
        afam = approve_family()
        arun = select(afam, 120) if quick else afam
        with ThreadPoolExecutor(16) as ex:
            ares = list(ex.map(lambda x: run_approve_case(ctx, x[0], x[1][0], x[1][1]), enumerate(arun)))
        aclasses = collections.Counter()
        for (lab, ov), rl in zip(arun, ares):
            for cmd, rc_, kind, site, msg, errtxt in rl:
                aclasses[kind] += 1
                if kind != 'ok':
                    fid = KNOWN.get((kind, site))
                    what = '%s in %s (%s): %s with %s' % (kind, site, msg[:80], cmd, lab)
                    if fid:
                        what = '%s: %s — program ends with exit status 2 and a Go trace' % (site, 'deliberate panic(err)')
                    failing.append(dict(what=what, finding=fid, key='%s %s' % (kind, site),
                                        replay=dict(property='C20', command=cmd, overrides=ov, mutation=lab, exit=rc_, stderr=errtxt,
                                                    how='basedir with policy p1 (IOS), status/router, simulated device (sim/simdev.py)')))
        # ---- 3. model against ParseConfig on members of the family ----
        jobs, seen = [], set()
        for e in index:
            if e['model'] in ('ASA', 'IOS'):
                for rel in e['files']:
                    if rel.endswith('.info'):
                        continue
                    t = open(os.path.join(e['dir'], rel), errors='surrogateescape').read()
                    k = (e['model'], 'router.raw' if rel.endswith('.raw') else 'router', t)
                    if len(t) < 8000 and k not in seen and c20model.ascii_only(t):
                        seen.add(k)
                        jobs.append(k)
        base_n = len(jobs)
        mut = []
        for case in fam:
            rel = case['file']
            if case['model'] in ('ASA', 'IOS') and not rel.endswith('.info'):
                t = case['files'][rel]
                k = (case['model'], 'router.raw' if rel.endswith('.raw') else 'router', t)
                if len(t) < 6000 and k not in seen and c20model.ascii_only(t):
                    seen.add(k)
                    mut.append(k)
        corpus_jobs = [k for k in c20corpus.parse_cases() if k not in seen]
        jobs = corpus_jobs + select(jobs, 150 if quick else 400) + select(mut, 450 if quick else 6000)
        ires = c20model.impl_parse(ctx, jobs)
        v = c20model.verdicts(ctx, jobs, ires)
        mcl = collections.Counter('panic' if r['Panic'] else 'error' if r['Err'] else 'config' for r in ires)
        for (m, f, t), r, x in zip(jobs, ires, v):
            if r['Panic'].startswith('runtime: '):
                failing.append(dict(what='ParseConfig: %s' % r['Panic'], finding=None, key='parse ' + r['Panic'][:60],
                                    replay=dict(property='C20', model=m, file=f, text=t, how='nah ciscoparse (the real ParseConfig)', result=r['Panic'])))
            elif x:
                breaks.append(dict(correspondence='Robust/Parse.v vs cisco.ParseConfig (%s)' % ('outcome class' if x == 1 else 'parsed configuration'),
                                   case=dict(model=m, file=f, text=t[:1500], impl=json.dumps(r)[:1500])))
        # ---- 4. routes ----
        rjobs, rs = [], set()
        for (m, f, t) in jobs:
            for ln in t.split('\n'):
                for pfx in ('ipv6 route', 'ip route', 'route'):
                    if ln.startswith(pfx + ' ') or ln == pfx:
                        if (pfx, ln) not in rs:
                            rs.add((pfx, ln))
                            rjobs.append((pfx, ln))
                        break
        rjobs = rjobs[:400 if quick else 4000]
        if rjobs:
            p = subprocess.run([os.path.join(ctx.bin, 'nah'), 'ciscoroutes'], input=json.dumps([dict(Prefix=a, Parsed=b) for a, b in rjobs]).encode(),
                               stdout=subprocess.PIPE, stderr=subprocess.PIPE, timeout=120)
            rres = json.loads(p.stdout.decode())
            items = ['(%s, %s, %s, %s)' % (C.cbytes(a), C.cbytes(b), C.cbool(r[0] == 'panic'), C.cbytes('' if r[0] == 'panic' else r[0]))
                     for (a, b), r in zip(rjobs, rres)]
            text = ('From Coq Require Import List String Bool.\nFrom NA Require Import Robust.GoStr Robust.Routes.\nImport ListNotations.\nOpen Scope string_scope.\n'
                    'Definition chk (c : string * string * bool * string) : nat :=\n'
                    '  match c with (p, s, pan, vrf) => match dst_of_route p s with\n'
                    '    | Ok (v, _) => if pan then 1 else if String.eqb v vrf then 0 else 2\n    | _ => if pan then 0 else 1 end end.\n'
                    'Definition V := Eval vm_compute in map chk %s.\nPrint V.\n' % C.clist(items))
            rv = C.parse_verdict_list(ctx.coq_eval('c20routes', text), len(items))
            for (a, b), r, x in zip(rjobs, rres, rv):
                if r[0] == 'panic':
                    failing.append(dict(what='dstOfRoute: %s' % r[1], finding=None, key='route ' + r[1][:50],
                                        replay=dict(property='C20', prefix=a, parsed=b, how='nah ciscoroutes (the real dstOfRoute)', result=r[1])))
                elif x:
                    breaks.append(dict(correspondence='Robust/Routes.v vs cisco.dstOfRoute', case=dict(prefix=a, parsed=b, impl=r)))
        # ---- 5. Linux parser: outcome class of drc against Robust/LinuxParse.v ----
        LMSG = [('Unexpected route: ', 1), ('Found chain policy outside of table', 2), ('Found rule outside of table', 3), ('Unsupported command', 4),
                ('Incomplete command', 5), ('Must define policy before adding rules', 6), ("Unexpected trailing '!'", 7), ('Unknown command:', 8)]
        ltexts, lseen = [], set()
        for e in index:
            if e['model'] == 'Linux':
                for rel in e['files']:
                    if not rel.endswith('.info'):
                        t = open(os.path.join(e['dir'], rel), errors='surrogateescape').read()
                        if t not in lseen and c20model.ascii_only(t) and '[APPEND]' not in t:
                            lseen.add(t)
                            ltexts.append(t)
        lmut = []
        for case in fam:
            rel = case['file']
            if case['model'] == 'Linux' and not rel.endswith('.info'):
                t = case['files'][rel]
                if t not in lseen and c20model.ascii_only(t) and len(t) < 4000:
                    lseen.add(t)
                    lmut.append(t)
        ltexts = ltexts + select(lmut, 300 if quick else 4000) + ['ip route add 10.0.0.0/24 dev eth0 proto\n', '*filter\n:INPUT DROP\n-A INPUT !\n',
                                                                 '*filter\n:INPUT DROP\n-A INPUT -s ! 10.0.0.1 ! -j ACCEPT\nCOMMIT\n', '-A INPUT -j ACCEPT\n', ':INPUT DROP\n']
        ljobs = [dict(model='Linux', device=t, netspoc=t) for t in ltexts]
        lres = drcrun.run_many(ctx, ljobs)
        text = ('From Coq Require Import List String.\nFrom NA Require Import Robust.GoStr Robust.LinuxParse.\nImport ListNotations.\nOpen Scope string_scope.\n'
                'Definition V := Eval vm_compute in map lclass %s.\nPrint V.\n' % C.clist([C.cbytes(t) for t in ltexts]))
        lv = C.parse_verdict_list(ctx.coq_eval('c20linux', text), len(ltexts))
        for t, r, mv in zip(ltexts, lres, lv):
            if r['panic']:
                failing.append(dict(what='Linux parser: drc panics', finding=None, key='linux-panic', replay=dict(property='C20', model='Linux', text=t, stderr=r['err'][:400])))
                continue
            iv = 0
            for msg, k in LMSG:
                if msg in r['err']:
                    iv = k
                    break
            if iv == 0 and r['rc'] != 0:
                iv = -1        # another diagnostic (not of the parser)
            if iv != mv and iv != -1:
                breaks.append(dict(correspondence='Robust/LinuxParse.v vs linux.ParseConfig: outcome %s, model %s' % (iv, mv), case=dict(text=t[:800], stderr=r['err'][:300], rc=r['rc'])))
        cov = dict(evaluations=len(run) + 3 * len(arun) + len(jobs) + len(rjobs) + len(ltexts), linux_parse_cases=len(ltexts), distinct_nontrivial=len(run) + len(arun),
                   exhaustive=(not quick),
                   rule='family of vlib/c20fam.py over every file-compare example of go/testdata/*.t (%d inputs): per line word-prefix truncations, '
                        'single-token deletions, duplications, swaps, indentation +1/+2/-1, doubled blank, line dropped/doubled/swapped, file cut after '
                        'each line, %d garbage files; XML/JSON files by token; device, Netspoc, IPv6, raw and info files; %d members%s; '
                        'do-approve compare / approve and missing-approve on token mutations of info, status, configuration and credentials files (%d of %d); '
                        'distinct by complete input content' % (len(index), len(c20fam.GARBAGE), total,
                                                                ' (quick: digit-normalised contexts once, %d of them run)' % len(run) if quick else ' (all run)',
                                                                len(arun), len(afam)),
                   drc_outcomes=dict(classes), drc_by_model=dict(bymodel), approve_outcomes=dict(aclasses),
                   traces_validated_against_impl=len(jobs) + len(rjobs), model_cases=dict(test_data=min(base_n, 150 if quick else 400), mutated=len(jobs) - min(base_n, 150 if quick else 400)),
                   parse_outcomes=dict(mcl), correspondence_mismatches=len(breaks), route_lines=len(rjobs),
                   samples=[dict(model=jobs[-1][0], text=jobs[-1][2][:300])] if jobs else [])
    cov = C.proof_coverage(ctx, cov)
    return C.finish(ctx, failing, breaks, cov,
                    ['modelled and proved: go/pkg/cisco/parse.go (ParseConfig, lookupCmd, matchCmd, postprocessParsed, checkReferences, IOS removeBanner) '
                     'and dstOfRoute / routeVRF of cisco/diff.go; the rest of the code (cisco diff, Linux, NSX, PAN-OS parsers, info/status/config files, '
                     'do-approve, missing-approve) is covered by the enumerated family only, not by a theorem',
                     'the model works on bytes: Unicode white space outside ASCII (U+0085, U+00A0, U+2000..) is trimmed by Go and not by the model; '
                     'correspondence inputs are restricted to ASCII',
                     'fixedName / anchor marks of commands and netip parsing are outside the model (no index expressions)',
                     'encoding/json, encoding/xml, regexp, netip: Go standard library, trusted',
                     'hang = no exit within 60 s while 16 runs are in parallel and again none within 600 s when run alone (60 s for do-approve)'])
