"""C04 — NSX approve converges to the Netspoc-equivalent gateway policies.

Proof: coq/theories/Nsx/*.v, Properties/C04.v.  Tie / search: generated manager /
target pairs; the REST calls printed by the built drc are executed by the Gallina
object store (strict: missing ids, referenced objects, dangling references), the
result is judged by the oracle (per policy the multiset of rules with groups by
address set and services by definition; no left-over Netspoc service or group),
rendered and compared a second time by drc."""
import collections, json
from vlib import common as C
from vlib import nsx as N
from vlib import drcrun
from vlib.cisco import parse_coq_term

WHY = {1: 'a Netspoc group or service that does not exist is referenced', 2: 'an object that is still referenced is deleted',
       3: 'no object with this id', 5: 'an address to remove is not in the group'}


def corpus():
    out = []
    R = N.rule
    # F-C03-1 (NSX variant): the new id of a clashing rule is the id of another rule of the target
    t = N.new_conf(); t['policies']['Netspoc-v1'] = [R('x', '10.1.1.10', '10.1.1.11', 'ANY'), R('x-1', '10.1.1.12', '10.1.1.13', 'ANY')]; N.finish(t)
    d = N.new_conf(); d['policies']['Netspoc-v1'] = [R('x', '10.7.7.7', '10.8.8.8', 'ANY', seq=40, action='DROP')]; N.finish(d)
    out.append(dict(tgt=t, dev=d, edits=['corpus-rule-id-clash']))
    t = N.new_conf(); t['groups'] = {'Netspoc-g': ['10.1.1.10', '10.1.1.11'], 'Netspoc-g-1': ['10.1.1.12', '10.1.1.13']}
    t['policies']['Netspoc-v1'] = [R('r1', N.GP + 'Netspoc-g', '10.1.1.20', 'ANY'), R('r2', N.GP + 'Netspoc-g-1', '10.1.1.21', 'ANY', seq=30)]; N.finish(t)
    d = N.new_conf(); d['groups'] = {'Netspoc-g': ['10.1.1.14', '10.1.1.15', '10.1.1.16']}
    d['policies']['Netspoc-v1'] = [R('r9', N.GP + 'Netspoc-g', '10.1.1.30', 'ANY', seq=40, action='DROP')]; N.finish(d)
    out.append(dict(tgt=t, dev=d, edits=['corpus-group-id-clash']))
    # second-level clash: manager holds NAME and NAME-1 (in use), the target NAME with new content
    t = N.new_conf(); t['groups'] = {'Netspoc-g0': ['10.1.1.10', '10.1.1.11'], 'Netspoc-g1': ['10.1.1.12', '10.1.1.13']}
    t['policies']['Netspoc-v1'] = [R('r1', N.GP + 'Netspoc-g0', '10.1.1.20', 'ANY'), R('r2', N.GP + 'Netspoc-g1', '10.1.1.21', 'ANY', seq=30)]; N.finish(t)
    d = N.new_conf(); d['groups'] = {'Netspoc-g0': ['10.1.1.14', '10.1.1.15', '10.1.1.16'], 'Netspoc-g0-1': ['10.1.1.12', '10.1.1.13']}
    d['policies']['Netspoc-v1'] = [R('r9', N.GP + 'Netspoc-g0', '10.1.1.30', 'ANY', seq=40, action='DROP'), R('r2', N.GP + 'Netspoc-g0-1', '10.1.1.21', 'ANY', seq=30)]; N.finish(d)
    out.append(dict(tgt=t, dev=d, edits=['corpus-group-id-clash-2']))
    # two rules share a group on the manager, the target splits them; the manager also holds a group with the content of the second
    # target group that only a rule to be deleted uses (a later DELETE of that group must not hit a group that was just re-used)
    t = N.new_conf(); t['groups'] = {'Netspoc-g0': ['10.1.1.10', '10.1.1.20', '10.1.1.30'], 'Netspoc-g1': ['10.1.1.10', '10.1.1.20', '10.1.1.40']}
    t['policies']['Netspoc-v1'] = [R('r1', N.GP + 'Netspoc-g0', '10.2.1.10', 'ANY'), R('r2', N.GP + 'Netspoc-g1', '10.2.1.11', 'ANY', seq=30)]; N.finish(t)
    d = N.new_conf(); d['groups'] = {'Netspoc-g0': ['10.1.1.10', '10.1.1.20'], 'Netspoc-g5': ['10.1.1.10', '10.1.1.20', '10.1.1.40']}
    d['policies']['Netspoc-v1'] = [R('r1', N.GP + 'Netspoc-g0', '10.2.1.10', 'ANY'), R('r2', N.GP + 'Netspoc-g0', '10.2.1.11', 'ANY', seq=30),
                                   R('r3', N.GP + 'Netspoc-g5', '10.2.1.12', 'ANY', seq=40)]; N.finish(d)
    out.append(dict(tgt=t, dev=d, edits=['corpus-shared-group-split-with-equal-leftover']))
    d2 = N.copy_conf(d); d2['policies']['Netspoc-v1'] = d2['policies']['Netspoc-v1'][:2]; N.finish(d2); d2['groups']['Netspoc-g5'] = ['10.1.1.10', '10.1.1.20', '10.1.1.40']
    out.append(dict(tgt=t, dev=d2, edits=['corpus-shared-group-split-with-unused-equal-leftover']))
    # the manager's service holds the entry of the target's service and one entry more (services are compared by their definitions)
    t = N.new_conf(); t['policies']['Netspoc-v1'] = [R('r1', '10.1.1.10', '10.1.1.11', N.SP + 'Netspoc-tcp_80')]; N.finish(t)
    d = N.copy_conf(t)
    d['services']['Netspoc-tcp_80'] = N.svc_def(('tcp', '80'))
    d['services']['Netspoc-tcp_80']['service_entries'].append(dict(id='id2', resource_type='L4PortSetServiceEntry', l4_protocol='TCP',
                                                                   destination_ports=['8080'], source_ports=[]))
    out.append(dict(tgt=t, dev=d, edits=['corpus-service-with-one-entry-more']))
    return out


def gen_case(rng):
    t = N.gen_target(rng)
    d, e = N.mutate(rng, t)
    if rng.random() < 0.06:
        d = N.new_conf()
    return dict(tgt=t, dev=d, edits=e)


def evaluate(ctx, n, with_second=True):
    """-> (failing, breaks, coverage dict); failing entries carry a key ('refused-..', 'not-converged', ...)"""
    failing, breaks, cov = [], [], {}
    cases = corpus() + [gen_case(ctx.rng) for _ in range(n)]
    jobs = [dict(model='NSX', device=N.conf_json(c['dev']), netspoc=N.conf_json(c['tgt'])) for c in cases]
    res = drcrun.run_many(ctx, jobs)
    items, meta = [], []
    for i, (c, job, r) in enumerate(zip(cases, jobs, res)):
        rep = dict(property='C04', command='drc -q device code/router', device=job['device'], netspoc=job['netspoc'], edits=c['edits'],
                   stdout=r['out'], stderr=r['err'][-500:], rc=r['rc'])
        if r['panic'] or r['rc'] not in (0, 1):
            failing.append(dict(what='drc crashes', replay=rep, finding=None, key='crash'))
            continue
        if r['rc'] != 0:
            breaks.append(dict(correspondence='generated NSX pair rejected by drc', case=rep))
            continue
        reqs, bad = N.parse_requests(r['out'])
        if bad:
            breaks.append(dict(correspondence='request not understood by the NSX model', case=dict(rep, requests=bad[:3])))
            continue
        items.append('{| nc_dev := %s; nc_tgt := %s; nc_reqs := %s |}' % (N.c_mgr(c['dev']), N.c_mgr(c['tgt']), C.clist(reqs)))
        meta.append((i, rep, bool(reqs)))
    verdicts = []
    for k in range(0, len(items), 200):
        text = ('From Coq Require Import List String.\nFrom NA Require Import Robust.GoStr Panos.Device Nsx.Device.\nImport ListNotations.\nOpen Scope string_scope.\n'
                'Definition V := Eval vm_compute in map (fun c => (njudge c, nalready c)) %s.\nPrint V.\n' % C.clist(items[k:k + 200]))
        verdicts += parse_coq_term(ctx.coq_eval('c04_%d' % k, text))
    if len(verdicts) != len(items):
        raise RuntimeError('verdict count %d != %d' % (len(verdicts), len(items)))
    second, second_meta, nontrivial = [], [], 0
    for (i, rep, has), v in zip(meta, verdicts):
        (pos, why, conv, left_s, left_g, rendered, already) = v
        conv, already = (conv == 'true'), (already == 'true')
        c = cases[i]
        nontrivial += has
        if pos:
            failing.append(dict(what='request %d is refused by the manager: %s' % (pos, WHY.get(why, why)),
                                replay=dict(rep, refused_request=pos, reason=WHY.get(why, why)), finding=None, key='refused-%d' % why))
            continue
        if not conv:
            failing.append(dict(what='after the requests the policies are not equivalent to the target', replay=dict(rep, final_state=rendered),
                                finding=None, key='not-converged'))
            continue
        if left_s or left_g:
            failing.append(dict(what='left-over Netspoc objects: services %s, groups %s' % (left_s, left_g), replay=dict(rep, final_state=rendered),
                                finding=None, key='leftover'))
            continue
        if not has and not already:
            failing.append(dict(what='no change reported although the manager is not equivalent to the target', replay=rep, finding=None, key='silent-difference'))
            continue
        fin = N.conf_from_render(rendered)
        second.append(dict(model='NSX', device=N.conf_json(fin), netspoc=job_netspoc(c)))
        second_meta.append((i, rep))
    res2 = drcrun.run_many(ctx, second)
    for (i, rep), job, r in zip(second_meta, second, res2):
        reqs2, _ = N.parse_requests(r['out'])
        if r['rc'] != 0 or reqs2:
            failing.append(dict(what='the second compare on the resulting state reports changes again',
                                replay=dict(rep, second_device=job['device'], second_stdout=r['out'], second_stderr=r['err'][-300:]), finding=None, key='not-idempotent'))
    ed = collections.Counter(e for c in cases for e in c['edits'])
    cov = dict(evaluations=len(cases) + len(second), distinct_nontrivial=len(set(items)), scripts_with_requests=nontrivial,
               rule='generated NSX pairs: 1-2 gateway policies with 0-5 rules (shared sequence numbers, IN/OUT, ALLOW/DROP, logged, tag), 0-3 groups, '
                    'services; manager = target after 0-4 edits (rule deleted / inserted / renamed, group renamed / grown / shrunk / split / shared / '
                    'duplicated, group <-> single address, service definition changed in place, spare groups and services, id clashes of rules and groups, '
                    'policy added / removed, external groups); distinct by (manager, target, requests)',
               edit_distribution=dict(ed), traces_validated_against_impl=len(items), second_compares=len(second), samples=[meta[0][1]] if meta else [])
    return failing, breaks, cov


def main(ctx):
    st = ctx.proof_status()
    failing, breaks, cov = [], [], {}
    if ctx.build_impl():
        failing, breaks, cov = evaluate(ctx, 150 if ctx.tier == 'quick' else 3000)
    cov = C.proof_coverage(ctx, cov)
    return C.finish(ctx, failing, breaks, cov,
                    ['REST semantics assumed by Nsx/Device.v: PUT creates or replaces, PATCH and DELETE need the id, POST ?action=add merges, ?action=remove '
                     'needs the addresses, a referenced group or service cannot be deleted, references to Netspoc-prefixed ids must exist; from the NSX-T '
                     'Policy API documentation, not validated against a manager',
                     'rule order inside a policy is by sequence number; rules are compared as a sorted multiset per policy',
                     'IPv6 / raw merges of NSX are not generated here'])


def job_netspoc(c):
    return N.conf_json(c['tgt'])
